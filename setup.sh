#!/bin/sh
# builds the symbolic executor from files on disk only (offline)
set -e
cd "$(dirname "$0")/engine"
export GOFLAGS=-mod=mod GOPROXY=off GOSUMDB=off GOTOOLCHAIN=local
mkdir -p ../bin
go build -o ../bin/symgo .
