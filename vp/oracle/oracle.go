// Package oracle is a dependency-free leaf package through which harnesses replace selected
// functions of THIRD-PARTY dependencies (cryptography, proof-tree and header-verification
// internals) by nondeterministic oracles. The replacement is done with a build overlay of the
// dependency's source file (one injected statement at the top of the function, see
// harness/<group>/stubs.json); it applies identically to the symbolic executor's package load
// and to the native replay build. Nothing in /repo is modified.
package oracle

var (
	// cometbft
	LightVerify           func(trustedHeader, trustedVals, untrustedHeader, untrustedVals interface{}, trustingPeriod int64, now interface{}, maxClockDrift int64, trustLevel interface{}) error
	ValidatorSetFromProto func(vp interface{}) (handled bool, err error)
	SignedHeaderFromProto func(shp interface{}) (handled bool, err error)
	ValidatorSetHash      func(tag int64) []byte
	// go-ethereum
	TrieVerifyProof func(root [32]byte, key []byte, proofDb interface{}) (value []byte, err error, handled bool)
	Ecrecover       func(hash, sig []byte) ([]byte, error)
	// tibc-go's own copy of ethash (09-eth): only the proof-of-work computation is replaced
	EthashVerifySeal func(header interface{}) (handled bool, err error)
)
