// Package vp is the harness API. This file is the NATIVE implementation, used
// when a harness is compiled with the ordinary Go tool chain to replay a
// solver counterexample against the real code: every nondeterministic input is
// read, in call order, from the replay script named by $VP_SCRIPT. The symbolic
// executor never runs these bodies; it intercepts the functions by name.
package vp

import (
	"encoding/hex"
	"encoding/json"
	"fmt"
	"os"
	"strconv"
	"time"

	"cosmossdk.io/log"
	"cosmossdk.io/store"
	"cosmossdk.io/store/metrics"
	storetypes "cosmossdk.io/store/types"
	cmtproto "github.com/cometbft/cometbft/proto/tendermint/types"
	dbm "github.com/cosmos/cosmos-db"
	sdk "github.com/cosmos/cosmos-sdk/types"
)

// IDAlphabet is the identifier alphabet accepted by host.IsValidID.
const IDAlphabet = "abcdefghijklmnopqrstuvwxyzABCDEFGHIJKLMNOPQRSTUVWXYZ0123456789._+-#[]<>"

// SmallID is a reduced identifier alphabet (letters/digits are interchangeable for the code under test).
const SmallID = "ab0._+-#[]<>"

type scriptVal struct {
	Name string `json:"name"`
	Kind string `json:"kind"`
	Val  string `json:"val"`
}

// Result of a native run.
type Outcome struct {
	Failed    []string `json:"failed"`
	Notes     []string `json:"notes"`
	Reached   []string `json:"reached"`
	Invalid   string   `json:"invalid,omitempty"` // script did not fit the run (engine defect)
	Panicked  string   `json:"panicked,omitempty"`
	Exhausted bool     `json:"exhausted,omitempty"` // the script ended before the harness did
}

var (
	script []scriptVal
	pos    int
	Out    Outcome
	loaded bool
)

type invalidScript struct{ msg string }
type assumeFailed struct{}
type scriptEnd struct{}

// Load reads the replay script.
func Load(path string) error {
	b, err := os.ReadFile(path)
	if err != nil {
		return err
	}
	script, pos, loaded = nil, 0, true
	Out = Outcome{}
	return json.Unmarshal(b, &script)
}

type event struct {
	kind, label string
	ok          bool
}

var events []event

const c20Label = "C20.1 repeated execution in the same process (other map order, other clock): same outcome"
const c20Course = "C20.1 repeated execution in the same process (other map order, other clock): same course of events"

// Run executes f under the loaded script and returns the outcome. With $VP_TWICE set, f is
// executed twice in this process with the same script and the two courses of events are compared.
func Run(f func()) (out Outcome) {
	if os.Getenv("VP_TWICE") == "" {
		return runOnce(f)
	}
	events = nil
	out1 := runOnce(f)
	ev1 := events
	pos, events = 0, nil
	Out = Outcome{}
	out2 := runOnce(f)
	ev2 := events
	out = out1
	n := len(ev1)
	if len(ev2) < n {
		n = len(ev2)
	}
	for i := 0; i < n; i++ {
		if ev1[i].kind != ev2[i].kind || ev1[i].label != ev2[i].label {
			out.Failed = append(out.Failed, c20Course)
			return out
		}
		if ev1[i].ok != ev2[i].ok {
			out.Failed = append(out.Failed, c20Label)
			return out
		}
	}
	if len(ev1) != len(ev2) && !out1.Exhausted && !out2.Exhausted {
		out.Failed = append(out.Failed, c20Course)
	}
	return out
}

func runOnce(f func()) (out Outcome) {
	regionSuffix = ""
	defer func() {
		if r := recover(); r != nil {
			switch r := r.(type) {
			case invalidScript:
				Out.Invalid = r.msg
			case assumeFailed:
				Out.Invalid = "assumption failed under the script"
			case scriptEnd:
				Out.Exhausted = true
			default:
				Out.Panicked = fmt.Sprint(r)
			}
		}
		out = Out
	}()
	f()
	return Out
}

func next(name, kind string) scriptVal {
	if !loaded {
		panic(invalidScript{"no script loaded"})
	}
	if pos >= len(script) {
		panic(scriptEnd{}) // the script ends where the solver's model was taken; what was observed so far stands
	}
	v := script[pos]
	pos++
	if v.Kind != kind {
		panic(invalidScript{fmt.Sprintf("script position %d: want %s %q, have %s %q", pos-1, kind, name, v.Kind, v.Name)})
	}
	return v
}

func Bool(name string) bool {
	v := next(name, "bool")
	return v.Val != "0"
}
func Byte(name string) byte {
	n, _ := strconv.ParseUint(next(name, "u8").Val, 10, 64)
	return byte(n)
}
func Uint64(name string) uint64 {
	n, _ := strconv.ParseUint(next(name, "u64").Val, 10, 64)
	return n
}
func Uint32(name string) uint32 {
	n, _ := strconv.ParseUint(next(name, "u32").Val, 10, 64)
	return uint32(n)
}
func Int64(name string) int64 {
	n, _ := strconv.ParseInt(next(name, "i64").Val, 10, 64)
	return n
}
func Choice(name string, n int) int {
	k, _ := strconv.Atoi(next(name, "choice").Val)
	return k
}
func String(name string, min, max int, alphabet string) string {
	b, _ := hex.DecodeString(next(name, "string").Val)
	return string(b)
}
func Bytes(name string, min, max int) []byte {
	b, _ := hex.DecodeString(next(name, "bytes").Val)
	if b == nil {
		b = []byte{}
	}
	return b
}

func Assume(c bool) {
	if !c {
		panic(assumeFailed{})
	}
}

// Region names the input region of the assertions that follow (appended to their labels), so that
// a recorded finding is tied to the inputs it concerns and the same assertion stays armed elsewhere.
func Region(suffix string) { regionSuffix = suffix }

var regionSuffix string

func Assert(c bool, label string) {
	label += regionSuffix
	events = append(events, event{"assert", label, c})
	if !c {
		Out.Failed = append(Out.Failed, label)
	}
}
func Note(c bool, label string) {
	if !c {
		Out.Notes = append(Out.Notes, label)
	}
}
func Reach(label string) {
	events = append(events, event{"reach", label, true})
	Out.Reached = append(Out.Reached, label)
}

// Bound returns the quick or the thorough value of a bound, according to $VERIF_TIER.
func Bound(quick, thorough int) int {
	if os.Getenv("VERIF_TIER") == "thorough" {
		return thorough
	}
	return quick
}

// Symbolic reports whether the harness runs under the symbolic executor.
func Symbolic() bool { return false }

// Panics runs f and reports whether it panicked.
func Panics(f func()) (p bool) {
	defer func() {
		if r := recover(); r != nil {
			switch r.(type) {
			case invalidScript, assumeFailed, scriptEnd:
				panic(r)
			}
			p = true
		}
	}()
	f()
	return false
}

// ---- environment -------------------------------------------------------------

var keys = map[string]*storetypes.KVStoreKey{}

// StoreKey returns the store key with the given name (one instance per name).
func StoreKey(name string) storetypes.StoreKey {
	if k, ok := keys[name]; ok {
		return k
	}
	k := storetypes.NewKVStoreKey(name)
	keys[name] = k
	return k
}

// Ctx returns a fresh context over empty in-memory stores for every key made by StoreKey so far.
func Ctx() sdk.Context {
	db := dbm.NewMemDB()
	cms := store.NewCommitMultiStore(db, log.NewNopLogger(), metrics.NewNoOpMetrics())
	for _, name := range []string{"tibc", "nft", "mt", "aux", "routing"} {
		cms.MountStoreWithDB(StoreKey(name), storetypes.StoreTypeIAVL, db)
	}
	if err := cms.LoadLatestVersion(); err != nil {
		panic(err)
	}
	writeLog = map[string]*[]writeRec{}
	ctx := sdk.NewContext(recMultiStore{cms}, cmtproto.Header{Time: time.Unix(1_600_000_000, 0).UTC(), Height: 1, ChainID: "testchain"}, false, log.NewNopLogger())
	return ctx.WithEventManager(sdk.NewEventManager())
}

func WithBlockTime(ctx sdk.Context, sec int64, nsec uint32) sdk.Context {
	return ctx.WithBlockTime(time.Unix(sec, int64(nsec)).UTC())
}

func WithBlockHeight(ctx sdk.Context, h int64) sdk.Context { return ctx.WithBlockHeight(h) }

// NumEvents counts emitted events of the given type.
func NumEvents(ctx sdk.Context, typ string) int {
	n := 0
	for _, e := range ctx.EventManager().Events() {
		if e.Type == typ {
			n++
		}
	}
	return n
}

// EventAttr returns attribute key of the k-th event of the given type ("" if absent).
func EventAttr(ctx sdk.Context, typ string, k int, key string) string {
	n := 0
	for _, e := range ctx.EventManager().Events() {
		if e.Type != typ {
			continue
		}
		if n == k {
			for _, a := range e.Attributes {
				if a.Key == key {
					return a.Value
				}
			}
			return ""
		}
		n++
	}
	return ""
}

// ---- write-set observation -----------------------------------------------------
// Every Set/Delete on a store obtained through a vp.Ctx context is recorded, so that a
// harness can assert which keys an operation wrote (frame conditions).

type writeRec struct {
	key []byte
	del bool
}

var writeLog = map[string]*[]writeRec{}

type recStore struct {
	storetypes.KVStore
	log *[]writeRec
}

func (s recStore) Set(key, value []byte) {
	*s.log = append(*s.log, writeRec{key: append([]byte{}, key...)})
	s.KVStore.Set(key, value)
}
func (s recStore) Delete(key []byte) {
	*s.log = append(*s.log, writeRec{key: append([]byte{}, key...), del: true})
	s.KVStore.Delete(key)
}

type recMultiStore struct {
	storetypes.MultiStore
}

func (m recMultiStore) GetKVStore(k storetypes.StoreKey) storetypes.KVStore {
	lg, ok := writeLog[k.Name()]
	if !ok {
		lg = &[]writeRec{}
		writeLog[k.Name()] = lg
	}
	return recStore{KVStore: m.MultiStore.GetKVStore(k), log: lg}
}

// HasKey reports whether the named store holds the key (fork-free under the symbolic executor).
func HasKey(ctx sdk.Context, store string, key []byte) bool {
	return ctx.MultiStore().GetKVStore(StoreKey(store)).Has(key)
}

// StoreMark returns the number of writes (Set/Delete) made so far to the named store.
func StoreMark(ctx sdk.Context, store string) int {
	if lg, ok := writeLog[store]; ok {
		return len(*lg)
	}
	return 0
}

// WrittenKey returns the key of the i-th write to the named store.
func WrittenKey(ctx sdk.Context, store string, i int) []byte { return (*writeLog[store])[i].key }

// WrittenIsDelete reports whether the i-th write was a Delete.
func WrittenIsDelete(ctx sdk.Context, store string, i int) bool { return (*writeLog[store])[i].del }

// ---- fork-free boolean helpers (the symbolic executor builds one term instead of branching) ----

func And(bs ...bool) bool {
	for _, b := range bs {
		if !b {
			return false
		}
	}
	return true
}

func Or(bs ...bool) bool {
	for _, b := range bs {
		if b {
			return true
		}
	}
	return false
}

func Implies(a, b bool) bool { return !a || b }

// SetIf runs f (which must only call store setters) if cond holds. Under the symbolic
// executor the writes made by f are recorded as conditional on cond, without forking.
func SetIf(cond bool, f func()) {
	if cond {
		f()
	}
}

func BytesEq(a, b []byte) bool { return string(a) == string(b) }

// BytesLess is the lexicographic a < b.
func BytesLess(a, b []byte) bool { return string(a) < string(b) }

// IteU64 selects a or b without branching under the symbolic executor.
func IteU64(c bool, a, b uint64) uint64 {
	if c {
		return a
	}
	return b
}
