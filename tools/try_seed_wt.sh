#!/bin/bash
# try_seed_wt.sh <seed_dir> <property...> : applies the seeded change to a scratch worktree of /repo's HEAD and runs the
# quick checks against that worktree (VERIF_REPO); /repo itself and /verif/evidence/<id>.json stay untouched.
D=$1; shift
ID=$(basename $D); WT=/tmp/try_$ID
git -C /repo worktree remove --force $WT 2>/dev/null
git -C /repo worktree add -q --detach $WT HEAD || exit 9
P=$D/patch.diff; [ -f $D/patch.rebased.diff ] && P=$D/patch.rebased.diff
git -C $WT apply $P || { echo "PATCH DOES NOT APPLY to /repo HEAD"; git -C /repo worktree remove --force $WT; exit 8; }
for p in "$@"; do
  echo "--- $p on $ID"
  (cd /verif && VERIF_REPO=$WT ./check $p quick; echo "rc=$?") 2>&1 | grep -E "^(VIOLATION|KNOWN|INCONCLUSIVE|rc=|  obligation|  - )" | head -12
done
git -C /repo worktree remove --force $WT
