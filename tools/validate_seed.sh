#!/bin/bash
# validate_seed.sh <seed_dir> : confirms a seeded change (patch.diff, demo_test.go, meta.json)
#  - applies to a scratch worktree of /repo's pristine commit, builds, runs the whole suite (must stay green
#    apart from the known-failing simulation tests and the demo itself), runs the demo with and without the patch.
set -u
D=$1; ID=$(basename $D)
BASE=${BASE:-a485fc1}
export GOFLAGS=-mod=mod GOPROXY=off GOSUMDB=off GOTOOLCHAIN=local
WT=/tmp/val_$ID
git -C /repo worktree remove --force $WT 2>/dev/null
git -C /repo worktree add -q --detach $WT $BASE || exit 9
DEMO_PATH=$(python3 -c "import json;print(json.load(open('$D/meta.json'))['demo_path'])")
DEMO_RUN=$(python3 -c "import json;print(json.load(open('$D/meta.json'))['demo_run'])")
cd $WT
cp $D/demo_test.go $WT/$DEMO_PATH
echo "== demo WITHOUT patch"; (eval "$DEMO_RUN") > $D/val_demo_without.log 2>&1; R0=$?
git apply $D/patch.diff || { echo "PATCH DOES NOT APPLY"; exit 8; }
echo "== build"; go build ./... > $D/val_build.log 2>&1; RB=$?
echo "== demo WITH patch"; (eval "$DEMO_RUN") > $D/val_demo_with.log 2>&1; R1=$?
rm -f $WT/$DEMO_PATH
echo "== suite WITH patch (demo removed)"; go test -vet=off -count=1 -timeout 25m ./... > $D/val_suite.log 2>&1
FAILS=$(grep -E "^(FAIL|--- FAIL)" $D/val_suite.log | grep -v "04-packet/simulation" | grep -v "TestDecodeStore" | grep -v "^FAIL$" | head -5)
cd /; git -C /repo worktree remove --force $WT
echo "{\"id\":\"$ID\",\"demo_without_patch_rc\":$R0,\"build_rc\":$RB,\"demo_with_patch_rc\":$R1,\"unexpected_suite_failures\":\"$(echo $FAILS | tr '"' "'")\"}" | tee $D/validation.json
