#!/usr/bin/env python3
"""seed_table.py: regenerates /verif/seeded/README.md (which check catches which seeded change) from the meta.json files."""
import json, os, re
root = '/verif/seeded'
rows = []
for d in sorted(os.listdir(root)):
    mp = os.path.join(root, d, 'meta.json')
    if not os.path.exists(mp):
        continue
    m = json.load(open(mp))
    patch = os.path.join(root, d, 'patch.rebased.diff' if os.path.exists(os.path.join(root, d, 'patch.rebased.diff')) else 'patch.diff')
    files = sorted(set(re.findall(r'^\+\+\+ b/(\S+)', open(patch).read(), flags=re.M)))
    det = m.get('detected_by', {})
    note = m.get('note') or ''
    first = 'missed, then caught after strengthening' if 'MISSED' in note.upper() else 'caught at once'
    summ = (m.get('summary') or '').replace('\n', ' ').replace('|', '/')
    if len(summ) > 260:
        summ = summ[:257] + '...'
    obl = '; '.join(det.get('obligations', []))[:300].replace('|', '/')
    rows.append('| %s | %s | %s | %s | %s | %s |' % (d, m.get('property', ''), ', '.join('`%s`' % f.replace('modules/tibc/', '') for f in files), summ, ', '.join(det.get('checks', [])) + ': ' + obl, first))
out = ['# Seeded changes and the checks that catch them', '',
       'Each directory holds `patch.diff` (applies to the commit named in `meta.json`; `patch.rebased.diff` where a later fix touched the same lines), the demonstration test and `meta.json`.',
       'Written by independent sub-agents from the property text only; confirmed in scratch worktrees (build ok, existing suite green, demonstration fails with / passes without the patch).', '',
       '| id | property | files changed | what the change does | caught by (check: obligations) | first contact |', '|---|---|---|---|---|---|'] + rows
open(os.path.join(root, 'README.md'), 'w').write('\n'.join(out) + '\n')
print(len(rows), 'seeded changes')
