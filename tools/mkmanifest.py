#!/usr/bin/env python3
"""Regenerates MANIFEST.json from checks.json (claimed properties) and properties.jsonl."""
import json, os
V = os.path.dirname(os.path.dirname(os.path.abspath(__file__)))
cfg = json.load(open(os.path.join(V, "checks.json")))
props = [json.loads(l) for l in open(os.path.join(V, "properties.jsonl"))]
na = json.load(open(os.path.join(V, "not_applicable.json"))) if os.path.exists(os.path.join(V, "not_applicable.json")) else {}
checks = []
for p in props:
    pid = p["id"]
    pc = cfg["properties"].get(pid)
    if not pc or pc.get("disabled"):
        continue
    checks.append({
        "property_id": pid,
        "quick_cmd": "./check %s quick" % pid,
        "thorough_cmd": "./check %s thorough" % pid,
        "evidence_file": "evidence/%s.json" % pid,
        "replay_cmd_template": "./check replay %s {path}" % pid,
        "engine": "symgo",
        "technique": pc.get("technique", "bounded symbolic execution of the real Go code (go/ssa -> SMT bit-vectors + UFs, z3), counterexamples replayed natively"),
        "level_claimed": {
            "category": "model_checking",
            "text": pc.get("level_text", "Bounded symbolic model checking of the real code: every obligation is decided by z3 for all inputs inside the stated bounds (unsat = holds, sat = concrete counterexample replayed against the compiled code). Not a proof: bounds and stubs are listed in the evidence."),
            "design_ref": pc.get("design_ref", "DESIGN.md section 5, " + pid),
        },
        "level_note": pc.get("level_note", "Trusted: engine intrinsics for the SDK environment (validated by native replay of witnesses on every run), z3, hash functions as injective UFs, codecs as inverse pairs, BaseApp atomicity; bounds: " + "; ".join(pc.get("bounds", [])) + " || assumptions / not decided: " + "; ".join(pc.get("assumptions", []))),
    })
claimed = {c["property_id"] for c in checks}
m = {
    "version": 1,
    "setup_cmd": "cd /verif && ./setup.sh",
    "hooks": {
        "guard": "verif",
        "enable": "no source hooks are committed to /repo and no build tag is needed: harnesses, the vp / oracle packages and the dependency stubs (one injected statement at the top of a third-party function, listed in harness/<group>/stubs.json; for C18 also of tibc-go's own ethash seal wrapper verifyCascadingFields, the switch that property's hook_needed describes) are injected through go/packages and `go test -c -overlay` build overlays generated from /repo's current working tree on every run",
        "baseline_off_cmd": "cd /repo && GOFLAGS=-mod=mod GOPROXY=off GOSUMDB=off go test -vet=off -count=1 -timeout 25m ./...",
        "source_commits": [],
        "add_only": True,
    },
    "engines": [{"name": "symgo", "path": "engine", "serves_properties": sorted(claimed),
                 "kind_free_text": "SSA-to-SMT bounded symbolic executor for Go written for this task (go/packages + go/ssa front end from x/tools v0.29.0, z3 4.8.12 back end over a pipe, cvc5/z3-new cross-check in the thorough tier); harness = ordinary Go with vp.* nondet/assume/assert intrinsics; counterexamples and reachability witnesses are replayed against the natively compiled real code"}],
    "checks": checks,
    "notes": "See DESIGN.md (section 0 first). KNOWN_FINDINGS.json lists genuine defects (by obligation label = input region) that are recorded rather than repaired (C13: 8 labels, C16: 2, C06: 4) and, under \"fixed\", the ten defects repaired in /repo by unguarded fix: commits 483ffa6 4cc0add b0e3c09 a4d88ba 79c9b4a 44acb7a 8681572 bfb806d 4c8cee9 986b735. No hook commits exist. seeded/README.md lists 42 independently seeded changes and the obligations that catch them. Checks of different properties may run concurrently (own scratch directories); VERIF_REPO=<dir> points a check at a scratch copy of the repository without touching evidence/.",
    "not_applicable": [{"property_id": p["id"], "reason": na.get(p["id"], "check not built yet (work in progress, see DESIGN.md section 10)")} for p in props if p["id"] not in claimed],
}
json.dump(m, open(os.path.join(V, "MANIFEST.json"), "w"), indent=1)
print("claimed:", sorted(claimed))
