#!/bin/bash
# run_all.sh <tier> : runs every registered check once, sequentially; summary in /tmp/run_all_<tier>.log
tier=${1:-quick}
cd /verif
for id in $(python3 -c "import json;print(' '.join(sorted(json.load(open('checks.json'))['properties'])))"); do
  s=$(date +%s)
  out=$(./check $id $tier 2>&1); rc=$?
  e=$(( $(date +%s) - s ))
  echo "$id rc=$rc ${e}s :: $(echo "$out" | grep -E "^(VIOLATION|INCONCLUSIVE|  - )" | head -4 | tr '\n' '|')" 
done
