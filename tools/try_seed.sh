#!/bin/bash
# try_seed.sh <seed_dir> <property...> : applies the seeded change to /repo, runs the quick checks, undoes it.
D=$1; shift
cd /repo || exit 9
if ! git diff --quiet; then echo "/repo has uncommitted changes"; exit 9; fi
P=$D/patch.diff; [ -f $D/patch.rebased.diff ] && P=$D/patch.rebased.diff; git apply $P || { echo "PATCH DOES NOT APPLY to current /repo"; cat /tmp/apply.err; git checkout -- . ; exit 8; }
git reset -q
for p in "$@"; do
  echo "--- $p on $(basename $D)"
  (cd /verif && ./check $p quick; echo "rc=$?") 2>&1 | grep -E "^(VIOLATION|KNOWN|INCONCLUSIVE|rc=|  obligation|  - )" | head -12
done
git checkout -- . ; git status --short | head -3
