#!/usr/bin/env python3
"""save_seed.py <id> <base-commit> <check,check> <obligation;obligation> [note]  -- stores a confirmed seeded change under /verif/seeded/<id>_<suffix>/"""
import json, os, shutil, sys
sid, base, checks, obls = sys.argv[1], sys.argv[2], sys.argv[3].split(','), sys.argv[4].split(';')
note = sys.argv[5] if len(sys.argv) > 5 else None
src = '/tmp/seed_out/' + sid
suffix = 'a'
while os.path.exists('/verif/seeded/%s_%s' % (sid, suffix)):
    suffix = chr(ord(suffix) + 1)
dst = '/verif/seeded/%s_%s' % (sid, suffix)
os.makedirs(dst)
for f in ['patch.diff', 'demo_test.go', 'patch.rebased.diff']:
    if os.path.exists(src + '/' + f):
        shutil.copy(src + '/' + f, dst + '/' + f)
meta = json.load(open(src + '/meta.json'))
val = json.load(open(src + '/validation.json'))
meta['origin'] = 'written by an independent sub-agent that was given only the property text and a scratch worktree of /repo at commit %s' % base
meta['confirmed_by_me'] = {'how': 'tools/validate_seed.sh (scratch worktree of %s): demo passes without the patch, go build ok, demo fails with the patch, whole suite with the patch shows no new failure' % base, 'validation': val}
meta['detected_by'] = {'checks': checks, 'tier': 'quick', 'obligations': obls, 'how': 'tools/try_seed.sh: git -C /repo apply; ./check <id> quick -> exit 1 with VIOLATION lines (native replay reproduced); git -C /repo checkout -- .'}
if note:
    meta['note'] = note
json.dump(meta, open(dst + '/meta.json', 'w'), indent=1)
print(dst)
