package main

// Concrete values of dependency globals whose initialisers hash constants (the hash functions are
// uninterpreted in the engine, so the initialiser cannot produce the real constant).

import (
	"encoding/hex"

	"golang.org/x/tools/go/ssa"
)

var globalHexOverrides = map[string]string{
	"github.com/ethereum/go-ethereum/core/types.EmptyUncleHash": "1dcc4de8dec75d7aab85b567b6ccd41ad312451b948a7413f0a142fd40d49347",
	"github.com/ethereum/go-ethereum/core/types.EmptyRootHash":  "56e81f171bcc55a6ff8345e692c0f86e5b48e01b996cadc001622fb5e363b421",
	"github.com/bianjieai/tibc-go/modules/tibc/light-clients/08-bsc/types.uncleHash": "1dcc4de8dec75d7aab85b567b6ccd41ad312451b948a7413f0a142fd40d49347",
	"github.com/bianjieai/tibc-go/modules/tibc/light-clients/09-eth/types.uncleHash": "1dcc4de8dec75d7aab85b567b6ccd41ad312451b948a7413f0a142fd40d49347",
}

func (p *Program) applyGlobalOverrides(pkg *ssa.Package) {
	for name, hx := range globalHexOverrides {
		path := pkg.Pkg.Path() + "."
		if len(name) <= len(path) || name[:len(path)] != path {
			continue
		}
		g, ok := pkg.Members[name[len(path):]].(*ssa.Global)
		if !ok {
			continue
		}
		bs, _ := hex.DecodeString(hx)
		arr := make(Array, len(bs))
		for i, b := range bs {
			arr[i] = p.template.tb.Const(uint64(b), 8)
		}
		var v Value = arr
		p.template.globals[g] = &v
	}
}
