package main

// Intrinsics for the standard library and error packages.

import (
	"fmt"
	"go/types"
	"strings"

	"golang.org/x/tools/go/ssa"
)

func (m *Machine) errIface(e *ErrObj) Value { return Iface{t: m.p.nativeErrType, v: e} }

func (m *Machine) strArg(v Value) *Str {
	s, ok := v.(*Str)
	if !ok {
		panic(unsupported(fmt.Sprintf("expected string, got %T", v)))
	}
	return s
}

// stringify renders a value for %s / %v; calls String()/Error() methods of the interpreted program.
func (m *Machine) stringify(fr *Frame, v Value, verb byte) *Str {
	switch x := v.(type) {
	case *Str:
		return x
	case *Term:
		if x.W == 0 {
			if x.IsConst() {
				return m.mkStr(fmt.Sprint(x.True()))
			}
			return &Str{b: m.mkStr("<bool>").b, tainted: true}
		}
		return &Str{b: m.decimal(x, false)}
	case Slice:
		if x.blob == nil && verb == 's' {
			ok := true
			for _, e := range x.v {
				if _, isT := e.(*Term); !isT {
					ok = false
				}
			}
			if ok {
				return &Str{b: m.bytesOf(x)}
			}
		}
	case Iface:
		if x.t == nil {
			return m.mkStr("<nil>")
		}
		if nat, ok := x.v.(Native); ok {
			if e, isErr := x.v.(*ErrObj); isErr {
				return e.Invoke(m, "Error", nil).(*Str)
			}
			_ = nat
			return &Str{b: m.mkStr("<native>").b, tainted: true}
		}
		// error / Stringer of the interpreted program
		for _, name := range []string{"Error", "String"} {
			if f := m.methodByName(x.t, name); f != nil {
				r := m.call(fr, f, []Value{x.v})
				if s, ok := r.(*Str); ok {
					return s
				}
			}
		}
		return m.stringifyDyn(fr, x.t, x.v, verb)
	case *ErrObj:
		return x.Invoke(m, "Error", nil).(*Str)
	}
	return &Str{b: m.mkStr(fmt.Sprintf("<%T>", v)).b, tainted: true}
}

func (m *Machine) stringifyDyn(fr *Frame, t types.Type, v Value, verb byte) *Str {
	switch x := v.(type) {
	case *Str:
		return x
	case *Term:
		if x.W > 0 {
			_, signed, _ := basicInfo(t)
			return &Str{b: m.decimal(x, signed)}
		}
		return m.stringify(fr, x, verb)
	case Slice:
		return m.stringify(fr, x, verb)
	}
	return &Str{b: m.mkStr("<" + t.String() + ">").b, tainted: true}
}

func (m *Machine) methodByName(t types.Type, name string) *ssa.Function {
	ms := m.p.prog.MethodSets.MethodSet(t)
	for i := 0; i < ms.Len(); i++ {
		sel := ms.At(i)
		if sel.Obj().Name() == name {
			sig := sel.Obj().Type().(*types.Signature)
			if sig.Params().Len() == 0 && sig.Results().Len() == 1 && isString(sig.Results().At(0).Type()) {
				return m.p.lookupMethod(t, sel.Obj().(*types.Func))
			}
		}
	}
	return nil
}

// decimal renders an integer term in base 10. A symbolic term yields fresh digit
// bytes tied to the value; the digit count forks (bounded by the harness' assumptions).
func (m *Machine) decimal(x *Term, signed bool) []*Term {
	tb := m.tb
	if x.IsConst() {
		var s string
		if signed {
			s = signedVal(x.val, x.W).String()
		} else {
			s = x.val.String()
		}
		return m.mkStr(s).b
	}
	if ds, ok := m.decMemo[x]; ok {
		return ds
	}
	if signed {
		// negative symbolic numbers are not formatted
		if m.decide(tb.Slt(x, tb.Const(0, x.W))) {
			panic(unsupported("decimal formatting of a negative symbolic integer"))
		}
	}
	x64 := tb.Zext(x, 64)
	if x.W > 64 {
		panic(unsupported("decimal formatting wider than 64 bits"))
	}
	maxDigits := 20
	pow := uint64(1)
	for n := 1; n <= maxDigits; n++ {
		// n digits iff x < 10^n (and, since earlier n failed, x >= 10^(n-1))
		var fits *Term
		if n == 20 {
			fits = tb.Bool(true)
		} else {
			fits = tb.Ult(x64, tb.Const(pow*10, 64))
		}
		if m.decide(fits) {
			ds := make([]*Term, n)
			var sum *Term = tb.Const(0, 64)
			p := uint64(1)
			for i := n - 1; i >= 0; i-- {
				d := tb.Fresh("dig", 8)
				m.addAxiom(tb.And(tb.Ule(tb.Const('0', 8), d), tb.Ule(d, tb.Const('9', 8))))
				ds[i] = d
				dv := tb.Zext(tb.Sub(d, tb.Const('0', 8)), 64)
				sum = tb.Add(sum, tb.Mul(dv, tb.Const(p, 64)))
				p *= 10
			}
			if n > 1 {
				m.addAxiom(tb.Not(tb.Eq(ds[0], tb.Const('0', 8))))
			}
			m.addAxiom(tb.Eq(sum, x64))
			m.decMemo[x] = ds
			return ds
		}
		pow *= 10
	}
	panic("unreachable")
}

// sprintf implements the subset of fmt verbs the code base uses.
func (m *Machine) sprintf(fr *Frame, format string, args []Value) *Str {
	var out []*Term
	tainted := false
	ai := 0
	emit := func(s *Str) {
		out = append(out, s.b...)
		if s.tainted {
			tainted = true
		}
	}
	for i := 0; i < len(format); i++ {
		c := format[i]
		if c != '%' {
			out = append(out, m.tb.Const(uint64(c), 8))
			continue
		}
		i++
		if i >= len(format) {
			break
		}
		// flags / width / precision are accepted only in the forms used (e.g. %02d, %x, %X, %q)
		flags := ""
		for i < len(format) && strings.ContainsRune("+-# 0123456789.", rune(format[i])) {
			flags += string(format[i])
			i++
		}
		verb := format[i]
		if verb == '%' {
			out = append(out, m.tb.Const('%', 8))
			continue
		}
		if ai >= len(args) {
			emit(m.mkStr("%!" + string(verb) + "(MISSING)"))
			continue
		}
		arg := args[ai]
		ai++
		if iv, ok := arg.(Iface); ok && iv.t != nil {
			if _, isNat := iv.v.(Native); !isNat {
				// unwrap basic dynamic values
				switch iv.v.(type) {
				case *Str, *Term, Slice:
					if !(verb == 's' || verb == 'v') || m.methodByName(iv.t, "String") == nil && m.methodByName(iv.t, "Error") == nil {
						t := iv.t
						arg = iv.v
						if tt, ok := arg.(*Term); ok && tt.W > 0 && (verb == 'd' || verb == 'v') {
							_, signed, _ := basicInfo(t)
							if flags != "" {
								tainted = true
							}
							emit(&Str{b: m.decimal(tt, signed)})
							continue
						}
					}
				}
			}
		}
		switch verb {
		case 's', 'v', 'd', 'w':
			if flags != "" && flags != "+" {
				emit(&Str{b: m.mkStr("<fmt>").b, tainted: true})
				continue
			}
			emit(m.stringify(fr, arg, verb))
		case 't':
			emit(m.stringify(fr, arg, verb))
		case 'x', 'X':
			if sl, ok := arg.(Slice); ok && sl.blob == nil {
				emit(&Str{b: m.hexEncode(m.bytesOf(sl), verb == 'X')})
			} else if s, ok := arg.(*Str); ok {
				emit(&Str{b: m.hexEncode(s.b, verb == 'X')})
			} else {
				emit(&Str{b: m.mkStr("<hex>").b, tainted: true})
			}
		default:
			emit(&Str{b: m.mkStr("<fmt-" + string(verb) + ">").b, tainted: true})
		}
	}
	return &Str{b: out, tainted: tainted}
}

func (m *Machine) hexEncode(bs []*Term, upper bool) []*Term {
	tb := m.tb
	out := make([]*Term, 0, 2*len(bs))
	a := uint64('a')
	if upper {
		a = 'A'
	}
	nib := func(n *Term) *Term { // n: 8-bit term holding 0..15
		return tb.Ite(tb.Ult(n, tb.Const(10, 8)), tb.Add(n, tb.Const('0', 8)), tb.Add(n, tb.Const(a-10, 8)))
	}
	if m.hexNib == nil {
		m.hexNib = map[*Term]*Term{}
	}
	for _, b := range bs {
		hi := tb.Zext(tb.Extract(b, 7, 4), 8)
		lo := tb.Zext(tb.Extract(b, 3, 0), 8)
		ch, cl := nib(hi), nib(lo)
		// remember which nibble each character encodes: decoding it back needs no case analysis
		m.hexNib[ch] = tb.Extract(b, 7, 4)
		m.hexNib[cl] = tb.Extract(b, 3, 0)
		out = append(out, ch, cl)
	}
	return out
}

// hexDecode: returns bytes and ok flag; forks on validity of each nibble.
func (m *Machine) hexDecode(s []*Term) ([]*Term, bool) {
	tb := m.tb
	if len(s)%2 != 0 {
		return nil, false
	}
	nib := func(c *Term) (*Term, bool) {
		if n, ok := m.hexNib[c]; ok {
			return n, true
		}
		isDigit := tb.And(tb.Ule(tb.Const('0', 8), c), tb.Ule(c, tb.Const('9', 8)))
		isLower := tb.And(tb.Ule(tb.Const('a', 8), c), tb.Ule(c, tb.Const('f', 8)))
		isUpper := tb.And(tb.Ule(tb.Const('A', 8), c), tb.Ule(c, tb.Const('F', 8)))
		if !m.decide(tb.Or(isDigit, isLower, isUpper)) {
			return nil, false
		}
		v := tb.Ite(isDigit, tb.Sub(c, tb.Const('0', 8)), tb.Ite(isLower, tb.Sub(c, tb.Const('a'-10, 8)), tb.Sub(c, tb.Const('A'-10, 8))))
		return tb.Extract(v, 3, 0), true
	}
	out := make([]*Term, 0, len(s)/2)
	for i := 0; i < len(s); i += 2 {
		h, ok := nib(s[i])
		if !ok {
			return nil, false
		}
		l, ok := nib(s[i+1])
		if !ok {
			return nil, false
		}
		out = append(out, tb.Concat(h, l))
	}
	return out, true
}

// hashUF models a collision-resistant hash as an injective uninterpreted function per input length.
func (m *Machine) hashUF(family string, in []*Term, outBytes int) []*Term {
	tb := m.tb
	var arg *Term
	if len(in) == 0 {
		arg = tb.Const(0, 1) // distinguished empty input
	} else {
		arg = tb.Concat(in...)
	}
	name := fmt.Sprintf("%s_%d", family, len(in))
	h := tb.UF(name, outBytes*8, arg)
	// pairwise injectivity within the family (also across input lengths)
	for _, prev := range m.hashApps[family] {
		if prev == h {
			goto done
		}
	}
	for _, prev := range m.hashApps[family] {
		if prev.args[0].W == arg.W {
			m.addAxiom(tb.Implies(tb.Eq(prev, h), tb.Eq(prev.args[0], arg)))
		} else {
			m.addAxiom(tb.Not(tb.Eq(prev, h)))
		}
	}
	m.hashApps[family] = append(m.hashApps[family], h)
done:
	out := make([]*Term, outBytes)
	for i := 0; i < outBytes; i++ {
		out[i] = tb.Extract(h, h.W-1-8*i, h.W-8-8*i)
	}
	return out
}

func (m *Machine) bytesArg(v Value) []*Term {
	switch x := v.(type) {
	case Slice:
		if x.blob != nil {
			panic(unsupported("byte-level use of an opaque marshalled blob"))
		}
		return m.bytesOf(x)
	case *Str:
		m.checkTaint(x)
		return x.b
	}
	panic(unsupported(fmt.Sprintf("expected bytes, got %T", v)))
}

func (m *Machine) indexOf(hay, needle []*Term, from int) int {
	// first index >= from at which needle occurs, forking on symbolic comparisons; -1 if none
	for i := from; i+len(needle) <= len(hay); i++ {
		if m.decide(m.bytesEq(hay[i:i+len(needle)], needle)) {
			return i
		}
	}
	return -1
}

func (m *Machine) strSlice(parts [][]*Term) Value {
	v := make([]Value, len(parts))
	for i, p := range parts {
		v[i] = &Str{b: p}
	}
	return Slice{v: v}
}

func isSpaceTerm(m *Machine, c *Term) *Term {
	tb := m.tb
	return tb.Or(tb.Eq(c, tb.Const(' ', 8)), tb.And(tb.Ule(tb.Const(9, 8), c), tb.Ule(c, tb.Const(13, 8))))
}

func registerStd(p *Program) {
	I := p.intrinsics
	nop := func(m *Machine, fr *Frame, fn *ssa.Function, a []Value) Value { return nil }

	// ---- errors
	I["cosmossdk.io/errors.Register"] = func(m *Machine, fr *Frame, fn *ssa.Function, a []Value) Value {
		return &ErrObj{kind: "sentinel", codespace: cstr(a[0]), code: uint32(a[1].(*Term).U64()), msg: cstr(a[2])}
	}
	I["cosmossdk.io/errors.RegisterWithGRPCCode"] = func(m *Machine, fr *Frame, fn *ssa.Function, a []Value) Value {
		return &ErrObj{kind: "sentinel", codespace: cstr(a[0]), code: uint32(a[1].(*Term).U64()), msg: cstr(a[3])}
	}
	I["cosmossdk.io/errors.Wrap"] = func(m *Machine, fr *Frame, fn *ssa.Function, a []Value) Value {
		return m.wrapErr(a[0].(Iface), describeStr(a[1]))
	}
	I["cosmossdk.io/errors.Wrapf"] = func(m *Machine, fr *Frame, fn *ssa.Function, a []Value) Value {
		return m.wrapErr(a[0].(Iface), describeStr(a[1]))
	}
	wrapMeth := func(m *Machine, fr *Frame, fn *ssa.Function, a []Value) Value {
		e, _ := a[0].(*ErrObj)
		if e == nil {
			return Iface{}
		}
		return m.wrapErr(m.errIface(e).(Iface), describeStr(a[1]))
	}
	I["(*cosmossdk.io/errors.Error).Wrap"] = wrapMeth
	I["(*cosmossdk.io/errors.Error).Wrapf"] = wrapMeth
	I["(*cosmossdk.io/errors.Error).Error"] = func(m *Machine, fr *Frame, fn *ssa.Function, a []Value) Value {
		return a[0].(*ErrObj).Invoke(m, "Error", nil)
	}
	I["(*cosmossdk.io/errors.Error).Is"] = func(m *Machine, fr *Frame, fn *ssa.Function, a []Value) Value {
		return a[0].(*ErrObj).Invoke(m, "Is", a[1:])
	}
	I["cosmossdk.io/errors.IsOf"] = func(m *Machine, fr *Frame, fn *ssa.Function, a []Value) Value {
		err := a[0].(Iface)
		for _, t := range a[1].(Slice).v {
			if m.errIs(err, t.(Iface)) {
				return m.tb.Bool(true)
			}
		}
		return m.tb.Bool(false)
	}
	I["errors.New"] = func(m *Machine, fr *Frame, fn *ssa.Function, a []Value) Value {
		return m.errIface(&ErrObj{kind: "new", msg: describeStr(a[0])})
	}
	I["github.com/pkg/errors.New"] = I["errors.New"]
	I["errors.Is"] = func(m *Machine, fr *Frame, fn *ssa.Function, a []Value) Value {
		return m.tb.Bool(m.errIs(a[0].(Iface), a[1].(Iface)))
	}
	I["errors.Unwrap"] = func(m *Machine, fr *Frame, fn *ssa.Function, a []Value) Value {
		iv := a[0].(Iface)
		if e, ok := iv.v.(*ErrObj); ok && e.cause != nil {
			return e.cause
		}
		return Iface{}
	}
	I["fmt.Errorf"] = func(m *Machine, fr *Frame, fn *ssa.Function, a []Value) Value {
		e := &ErrObj{kind: "new", msg: describeStr(a[0])}
		// %w keeps the first error argument as cause
		if strings.Contains(describeStr(a[0]), "%w") {
			for _, x := range a[1].(Slice).v {
				if iv, ok := x.(Iface); ok && iv.t != nil {
					if _, isErr := iv.v.(*ErrObj); isErr {
						e.cause = iv
						break
					}
				}
			}
		}
		return m.errIface(e)
	}
	// ---- fmt
	I["fmt.Sprintf"] = func(m *Machine, fr *Frame, fn *ssa.Function, a []Value) Value {
		f := m.strArg(a[0])
		if !f.IsConcrete() {
			panic(unsupported("Sprintf with symbolic format"))
		}
		return m.sprintf(fr, f.Concrete(), a[1].(Slice).v)
	}
	I["fmt.Sprint"] = func(m *Machine, fr *Frame, fn *ssa.Function, a []Value) Value {
		var out []*Term
		t := false
		for _, x := range a[0].(Slice).v {
			s := m.stringify(fr, x, 'v')
			out = append(out, s.b...)
			t = t || s.tainted
		}
		return &Str{b: out, tainted: t}
	}
	I["fmt.Println"] = func(m *Machine, fr *Frame, fn *ssa.Function, a []Value) Value {
		return Tuple{m.tb.ConstI(0, 64), Iface{}}
	}
	I["fmt.Printf"] = I["fmt.Println"]
	I["fmt.Print"] = I["fmt.Println"]

	// ---- strings / bytes
	I["strings.Split"] = func(m *Machine, fr *Frame, fn *ssa.Function, a []Value) Value {
		s, sep := m.strArg(a[0]), m.strArg(a[1])
		m.checkTaint(s)
		if len(sep.b) == 0 {
			panic(unsupported("strings.Split with empty separator"))
		}
		var parts [][]*Term
		start := 0
		for {
			i := m.indexOf(s.b, sep.b, start)
			if i < 0 {
				break
			}
			parts = append(parts, s.b[start:i])
			start = i + len(sep.b)
		}
		parts = append(parts, s.b[start:])
		return m.strSlice(parts)
	}
	I["strings.SplitN"] = func(m *Machine, fr *Frame, fn *ssa.Function, a []Value) Value {
		s, sep := m.strArg(a[0]), m.strArg(a[1])
		n := m.concreteInt(a[2], "SplitN n")
		m.checkTaint(s)
		if n == 0 {
			return Slice{}
		}
		var parts [][]*Term
		start := 0
		for n < 0 || len(parts) < n-1 {
			i := m.indexOf(s.b, sep.b, start)
			if i < 0 {
				break
			}
			parts = append(parts, s.b[start:i])
			start = i + len(sep.b)
		}
		parts = append(parts, s.b[start:])
		return m.strSlice(parts)
	}
	I["strings.Join"] = func(m *Machine, fr *Frame, fn *ssa.Function, a []Value) Value {
		sep := m.strArg(a[1])
		var out []*Term
		t := false
		for i, e := range a[0].(Slice).v {
			if i > 0 {
				out = append(out, sep.b...)
			}
			s := e.(*Str)
			out = append(out, s.b...)
			t = t || s.tainted
		}
		return &Str{b: out, tainted: t}
	}
	I["strings.HasPrefix"] = func(m *Machine, fr *Frame, fn *ssa.Function, a []Value) Value {
		s, pre := m.strArg(a[0]), m.strArg(a[1])
		m.checkTaint(s)
		if len(pre.b) > len(s.b) {
			return m.tb.Bool(false)
		}
		return m.bytesEq(s.b[:len(pre.b)], pre.b)
	}
	I["strings.HasSuffix"] = func(m *Machine, fr *Frame, fn *ssa.Function, a []Value) Value {
		s, suf := m.strArg(a[0]), m.strArg(a[1])
		m.checkTaint(s)
		if len(suf.b) > len(s.b) {
			return m.tb.Bool(false)
		}
		return m.bytesEq(s.b[len(s.b)-len(suf.b):], suf.b)
	}
	I["bytes.HasPrefix"] = func(m *Machine, fr *Frame, fn *ssa.Function, a []Value) Value {
		s, pre := m.bytesArg(a[0]), m.bytesArg(a[1])
		if len(pre) > len(s) {
			return m.tb.Bool(false)
		}
		return m.bytesEq(s[:len(pre)], pre)
	}
	I["strings.Contains"] = func(m *Machine, fr *Frame, fn *ssa.Function, a []Value) Value {
		s, sub := m.strArg(a[0]), m.strArg(a[1])
		m.checkTaint(s)
		var alts []*Term
		for i := 0; i+len(sub.b) <= len(s.b); i++ {
			alts = append(alts, m.bytesEq(s.b[i:i+len(sub.b)], sub.b))
		}
		return m.tb.Or(alts...)
	}
	I["strings.Index"] = func(m *Machine, fr *Frame, fn *ssa.Function, a []Value) Value {
		s, sub := m.strArg(a[0]), m.strArg(a[1])
		m.checkTaint(s)
		return m.tb.ConstI(int64(m.indexOf(s.b, sub.b, 0)), 64)
	}
	I["strings.IndexByte"] = func(m *Machine, fr *Frame, fn *ssa.Function, a []Value) Value {
		s := m.strArg(a[0])
		m.checkTaint(s)
		return m.tb.ConstI(int64(m.indexOf(s.b, []*Term{a[1].(*Term)}, 0)), 64)
	}
	I["strings.LastIndex"] = func(m *Machine, fr *Frame, fn *ssa.Function, a []Value) Value {
		s, sub := m.strArg(a[0]), m.strArg(a[1])
		m.checkTaint(s)
		for i := len(s.b) - len(sub.b); i >= 0; i-- {
			if m.decide(m.bytesEq(s.b[i:i+len(sub.b)], sub.b)) {
				return m.tb.ConstI(int64(i), 64)
			}
		}
		return m.tb.ConstI(-1, 64)
	}
	I["strings.Count"] = func(m *Machine, fr *Frame, fn *ssa.Function, a []Value) Value {
		s, sub := m.strArg(a[0]), m.strArg(a[1])
		m.checkTaint(s)
		n, start := 0, 0
		for {
			i := m.indexOf(s.b, sub.b, start)
			if i < 0 {
				break
			}
			n++
			start = i + len(sub.b)
		}
		return m.tb.ConstI(int64(n), 64)
	}
	I["strings.TrimSpace"] = func(m *Machine, fr *Frame, fn *ssa.Function, a []Value) Value {
		s := m.strArg(a[0])
		m.checkTaint(s)
		lo, hi := 0, len(s.b)
		for lo < hi {
			c := s.b[lo]
			if !c.IsConst() && !m.decide(m.tb.Ult(c, m.tb.Const(0x80, 8))) {
				panic(unsupported("TrimSpace on symbolic non-ASCII byte"))
			}
			if !m.decide(isSpaceTerm(m, c)) {
				break
			}
			lo++
		}
		for hi > lo {
			c := s.b[hi-1]
			if !c.IsConst() && !m.decide(m.tb.Ult(c, m.tb.Const(0x80, 8))) {
				panic(unsupported("TrimSpace on symbolic non-ASCII byte"))
			}
			if !m.decide(isSpaceTerm(m, c)) {
				break
			}
			hi--
		}
		return &Str{b: s.b[lo:hi]}
	}
	replace := func(m *Machine, s, old, nw *Str, n int) *Str {
		m.checkTaint(s)
		if len(old.b) == 0 {
			panic(unsupported("strings.Replace with empty old"))
		}
		var out []*Term
		start := 0
		for cnt := 0; n < 0 || cnt < n; cnt++ {
			i := m.indexOf(s.b, old.b, start)
			if i < 0 {
				break
			}
			out = append(out, s.b[start:i]...)
			out = append(out, nw.b...)
			start = i + len(old.b)
		}
		out = append(out, s.b[start:]...)
		return &Str{b: out}
	}
	I["strings.Replace"] = func(m *Machine, fr *Frame, fn *ssa.Function, a []Value) Value {
		return replace(m, m.strArg(a[0]), m.strArg(a[1]), m.strArg(a[2]), m.concreteInt(a[3], "Replace n"))
	}
	I["strings.ReplaceAll"] = func(m *Machine, fr *Frame, fn *ssa.Function, a []Value) Value {
		return replace(m, m.strArg(a[0]), m.strArg(a[1]), m.strArg(a[2]), -1)
	}
	I["strings.TrimPrefix"] = func(m *Machine, fr *Frame, fn *ssa.Function, a []Value) Value {
		s, pre := m.strArg(a[0]), m.strArg(a[1])
		m.checkTaint(s)
		if len(pre.b) <= len(s.b) && m.decide(m.bytesEq(s.b[:len(pre.b)], pre.b)) {
			return &Str{b: s.b[len(pre.b):]}
		}
		return s
	}
	I["strings.TrimSuffix"] = func(m *Machine, fr *Frame, fn *ssa.Function, a []Value) Value {
		s, suf := m.strArg(a[0]), m.strArg(a[1])
		m.checkTaint(s)
		if len(suf.b) <= len(s.b) && m.decide(m.bytesEq(s.b[len(s.b)-len(suf.b):], suf.b)) {
			return &Str{b: s.b[:len(s.b)-len(suf.b)]}
		}
		return s
	}
	I["strings.ToLower"] = func(m *Machine, fr *Frame, fn *ssa.Function, a []Value) Value {
		s := m.strArg(a[0])
		m.checkTaint(s)
		tb := m.tb
		out := make([]*Term, len(s.b))
		for i, c := range s.b {
			if !c.IsConst() && !m.decide(tb.Ult(c, tb.Const(0x80, 8))) {
				panic(unsupported("ToLower on symbolic non-ASCII byte"))
			}
			isUp := tb.And(tb.Ule(tb.Const('A', 8), c), tb.Ule(c, tb.Const('Z', 8)))
			out[i] = tb.Ite(isUp, tb.Add(c, tb.Const(32, 8)), c)
		}
		return &Str{b: out}
	}
	I["bytes.Equal"] = func(m *Machine, fr *Frame, fn *ssa.Function, a []Value) Value {
		x, y := a[0].(Slice), a[1].(Slice)
		if x.blob != nil || y.blob != nil {
			if x.blob != nil && y.blob != nil {
				return m.tb.Bool(x.blob == y.blob)
			}
			panic(unsupported("bytes.Equal between blob and bytes"))
		}
		return m.bytesEq(m.bytesOf(x), m.bytesOf(y))
	}
	I["bytes.Compare"] = func(m *Machine, fr *Frame, fn *ssa.Function, a []Value) Value {
		x, y := m.bytesArg(a[0]), m.bytesArg(a[1])
		if m.decide(m.bytesEq(x, y)) {
			return m.tb.ConstI(0, 64)
		}
		if m.decide(m.bytesLess(x, y, false)) {
			return m.tb.ConstI(-1, 64)
		}
		return m.tb.ConstI(1, 64)
	}
	// strings.Builder
	type builder struct{ b []*Term }
	bget := func(m *Machine, v Value) *[]*Term {
		p := v.(*Value)
		st := (*p).(Struct)
		// field 1 ("buf") holds our accumulator as a byte slice
		if sl, ok := st[1].(Slice); ok {
			ts := m.bytesOf(sl)
			return &ts
		}
		ts := []*Term{}
		return &ts
	}
	bput := func(m *Machine, v Value, ts []*Term) {
		p := v.(*Value)
		st := (*p).(Struct)
		st[1] = m.mkBytes(ts)
	}
	I["(*strings.Builder).WriteString"] = func(m *Machine, fr *Frame, fn *ssa.Function, a []Value) Value {
		s := m.strArg(a[1])
		m.checkTaint(s)
		ts := bget(m, a[0])
		bput(m, a[0], append(append([]*Term{}, (*ts)...), s.b...))
		return Tuple{m.tb.ConstI(int64(len(s.b)), 64), Iface{}}
	}
	I["(*strings.Builder).WriteByte"] = func(m *Machine, fr *Frame, fn *ssa.Function, a []Value) Value {
		ts := bget(m, a[0])
		bput(m, a[0], append(append([]*Term{}, (*ts)...), a[1].(*Term)))
		return Iface{}
	}
	I["(*strings.Builder).WriteRune"] = func(m *Machine, fr *Frame, fn *ssa.Function, a []Value) Value {
		r := a[1].(*Term)
		if !r.IsConst() {
			r8 := m.tb.Extract(r, 7, 0)
			if !m.decide(m.tb.Ult(r, m.tb.Const(0x80, 32))) {
				panic(unsupported("WriteRune of symbolic non-ASCII rune"))
			}
			ts := bget(m, a[0])
			bput(m, a[0], append(append([]*Term{}, (*ts)...), r8))
			return Tuple{m.tb.ConstI(1, 64), Iface{}}
		}
		s := m.mkStr(string(rune(r.I64())))
		ts := bget(m, a[0])
		bput(m, a[0], append(append([]*Term{}, (*ts)...), s.b...))
		return Tuple{m.tb.ConstI(int64(len(s.b)), 64), Iface{}}
	}
	I["(*strings.Builder).Write"] = func(m *Machine, fr *Frame, fn *ssa.Function, a []Value) Value {
		bs := m.bytesArg(a[1])
		ts := bget(m, a[0])
		bput(m, a[0], append(append([]*Term{}, (*ts)...), bs...))
		return Tuple{m.tb.ConstI(int64(len(bs)), 64), Iface{}}
	}
	I["(*strings.Builder).String"] = func(m *Machine, fr *Frame, fn *ssa.Function, a []Value) Value {
		return &Str{b: *bget(m, a[0])}
	}
	I["(*strings.Builder).Len"] = func(m *Machine, fr *Frame, fn *ssa.Function, a []Value) Value {
		return m.tb.ConstI(int64(len(*bget(m, a[0]))), 64)
	}
	I["(*strings.Builder).Grow"] = nop
	I["(*strings.Builder).Reset"] = func(m *Machine, fr *Frame, fn *ssa.Function, a []Value) Value {
		bput(m, a[0], nil)
		return nil
	}
	// ---- strconv
	parseUint := func(m *Machine, s *Str, bits int) (Value, bool) {
		tb := m.tb
		m.checkTaint(s)
		if len(s.b) == 0 || len(s.b) > 19 {
			if len(s.b) > 19 {
				panic(unsupported("ParseUint of more than 19 digits"))
			}
			return tb.Const(0, 64), false
		}
		sum := tb.Const(0, 64)
		for _, c := range s.b {
			isDigit := tb.And(tb.Ule(tb.Const('0', 8), c), tb.Ule(c, tb.Const('9', 8)))
			if !m.decide(isDigit) {
				return tb.Const(0, 64), false
			}
			sum = tb.Add(tb.Mul(sum, tb.Const(10, 64)), tb.Zext(tb.Sub(c, tb.Const('0', 8)), 64))
		}
		return sum, true
	}
	I["strconv.ParseUint"] = func(m *Machine, fr *Frame, fn *ssa.Function, a []Value) Value {
		base := m.concreteInt(a[1], "base")
		bits := m.concreteInt(a[2], "bitSize")
		if base != 10 || (bits != 64 && bits != 0) {
			panic(unsupported("ParseUint base/bitSize"))
		}
		v, ok := parseUint(m, m.strArg(a[0]), 64)
		if !ok {
			return Tuple{m.tb.Const(0, 64), m.errIface(&ErrObj{kind: "new", msg: "strconv.ParseUint: invalid syntax"})}
		}
		return Tuple{v, Iface{}}
	}
	I["strconv.Atoi"] = func(m *Machine, fr *Frame, fn *ssa.Function, a []Value) Value {
		s := m.strArg(a[0])
		if len(s.b) > 0 && s.b[0].IsConst() && (s.b[0].U64() == '-' || s.b[0].U64() == '+') {
			panic(unsupported("Atoi with sign"))
		}
		v, ok := parseUint(m, s, 64)
		if !ok {
			return Tuple{m.tb.Const(0, 64), m.errIface(&ErrObj{kind: "new", msg: "strconv.Atoi: invalid syntax"})}
		}
		return Tuple{v, Iface{}}
	}
	I["strconv.Itoa"] = func(m *Machine, fr *Frame, fn *ssa.Function, a []Value) Value {
		return &Str{b: m.decimal(a[0].(*Term), true)}
	}
	I["strconv.FormatUint"] = func(m *Machine, fr *Frame, fn *ssa.Function, a []Value) Value {
		if m.concreteInt(a[1], "base") != 10 {
			panic(unsupported("FormatUint base"))
		}
		return &Str{b: m.decimal(a[0].(*Term), false)}
	}
	I["strconv.FormatInt"] = func(m *Machine, fr *Frame, fn *ssa.Function, a []Value) Value {
		if m.concreteInt(a[1], "base") != 10 {
			panic(unsupported("FormatInt base"))
		}
		return &Str{b: m.decimal(a[0].(*Term), true)}
	}
	I["strconv.FormatBool"] = func(m *Machine, fr *Frame, fn *ssa.Function, a []Value) Value {
		if m.decide(a[0].(*Term)) {
			return m.mkStr("true")
		}
		return m.mkStr("false")
	}
	// ---- sync / atomic
	for _, n := range []string{"(*sync.Mutex).Lock", "(*sync.Mutex).Unlock", "(*sync.RWMutex).Lock", "(*sync.RWMutex).Unlock",
		"(*sync.RWMutex).RLock", "(*sync.RWMutex).RUnlock", "(*sync.WaitGroup).Add", "(*sync.WaitGroup).Done", "(*sync.WaitGroup).Wait"} {
		I[n] = nop
	}
	I["(*sync.Once).Do"] = func(m *Machine, fr *Frame, fn *ssa.Function, a []Value) Value {
		p := a[0].(*Value)
		st := (*p).(Struct)
		// field 0 is the done flag (atomic.Uint32 struct) — use our own marker in field 1 position-agnostic: mark via first field
		if mark, ok := st[0].(*Term); ok && mark.IsConst() && mark.U64() == 1 {
			return nil
		}
		st[0] = m.tb.Const(1, 32)
		m.call(fr, a[1], nil)
		return nil
	}
	// ---- hashes
	I["crypto/sha256.Sum256"] = func(m *Machine, fr *Frame, fn *ssa.Function, a []Value) Value {
		in := m.bytesArg(a[0])
		out := m.hashUF("sha256", in, 32)
		arr := make(Array, 32)
		for i := range arr {
			arr[i] = out[i]
		}
		return arr
	}
	// ---- encoding/binary (big endian)
	I["(encoding/binary.bigEndian).Uint64"] = func(m *Machine, fr *Frame, fn *ssa.Function, a []Value) Value {
		b := m.bytesArg(a[1])
		if len(b) < 8 {
			panic(&goPanic{msg: "index out of range [7] (binary.BigEndian.Uint64)"})
		}
		return m.tb.Concat(b[:8]...)
	}
	I["(encoding/binary.bigEndian).Uint32"] = func(m *Machine, fr *Frame, fn *ssa.Function, a []Value) Value {
		b := m.bytesArg(a[1])
		if len(b) < 4 {
			panic(&goPanic{msg: "index out of range [3] (binary.BigEndian.Uint32)"})
		}
		return m.tb.Concat(b[:4]...)
	}
	I["(encoding/binary.bigEndian).PutUint64"] = func(m *Machine, fr *Frame, fn *ssa.Function, a []Value) Value {
		sl := a[1].(Slice)
		if len(sl.v) < 8 {
			panic(&goPanic{msg: "index out of range [7] (binary.BigEndian.PutUint64)"})
		}
		v := a[2].(*Term)
		for i := 0; i < 8; i++ {
			sl.v[i] = m.tb.Extract(v, 63-8*i, 56-8*i)
		}
		return nil
	}
	I["(encoding/binary.bigEndian).PutUint32"] = func(m *Machine, fr *Frame, fn *ssa.Function, a []Value) Value {
		sl := a[1].(Slice)
		if len(sl.v) < 4 {
			panic(&goPanic{msg: "index out of range [3] (binary.BigEndian.PutUint32)"})
		}
		v := a[2].(*Term)
		for i := 0; i < 4; i++ {
			sl.v[i] = m.tb.Extract(v, 31-8*i, 24-8*i)
		}
		return nil
	}
	// ---- hex
	I["encoding/hex.EncodeToString"] = func(m *Machine, fr *Frame, fn *ssa.Function, a []Value) Value {
		return &Str{b: m.hexEncode(m.bytesArg(a[0]), false)}
	}
	I["encoding/hex.DecodeString"] = func(m *Machine, fr *Frame, fn *ssa.Function, a []Value) Value {
		s := m.strArg(a[0])
		m.checkTaint(s)
		out, ok := m.hexDecode(s.b)
		if !ok {
			return Tuple{Slice{}, m.errIface(&ErrObj{kind: "new", msg: "encoding/hex: invalid"})}
		}
		return Tuple{m.mkBytes(out), Iface{}}
	}
	// ---- telemetry / metrics: no-ops
	for _, n := range []string{
		"github.com/cosmos/cosmos-sdk/telemetry.IncrCounterWithLabels", "github.com/cosmos/cosmos-sdk/telemetry.IncrCounter",
		"github.com/cosmos/cosmos-sdk/telemetry.SetGaugeWithLabels", "github.com/cosmos/cosmos-sdk/telemetry.ModuleMeasureSince",
		"github.com/cosmos/cosmos-sdk/telemetry.MeasureSince", "github.com/cosmos/cosmos-sdk/telemetry.SetGauge",
	} {
		I[n] = nop
	}
	I["github.com/cosmos/cosmos-sdk/telemetry.NewLabel"] = func(m *Machine, fr *Frame, fn *ssa.Function, a []Value) Value {
		return m.zero(fn.Signature.Results().At(0).Type())
	}
	I["time.Now"] = func(m *Machine, fr *Frame, fn *ssa.Function, a []Value) Value {
		sec := m.tb.Fresh("ENV.time.Now.sec", 64)
		m.envTags[sec] = true
		m.addAxiom(m.tb.And(m.tb.Slt(m.tb.ConstI(0, 64), sec), m.tb.Slt(sec, m.tb.ConstI(1<<40, 64))))
		return m.timeValue(sec, m.tb.Const(0, 32))
	}
}

func registerIntrinsics(p *Program) {
	registerVP(p)
	registerEnv(p)
	registerStd(p)
	registerExtra(p)
}
