package main

// Terms: hash-consed SMT expressions over Bool and fixed-width bit-vectors,
// with constant folding so that concrete computation stays concrete.

import (
	"fmt"
	"math/big"
	"strings"
)

type Op uint8

const (
	OpConst Op = iota
	OpVar
	OpNot
	OpAnd
	OpOr
	OpEq
	OpIte
	OpAdd
	OpSub
	OpMul
	OpUDiv
	OpSDiv
	OpURem
	OpSRem
	OpBAnd
	OpBOr
	OpBXor
	OpBNot
	OpNeg
	OpShl
	OpLshr
	OpAshr
	OpUlt
	OpUle
	OpSlt
	OpSle
	OpConcat
	OpExtract
	OpZext
	OpSext
	OpUF
)

var opSMT = map[Op]string{
	OpNot: "not", OpAnd: "and", OpOr: "or", OpEq: "=", OpIte: "ite",
	OpAdd: "bvadd", OpSub: "bvsub", OpMul: "bvmul", OpUDiv: "bvudiv", OpSDiv: "bvsdiv",
	OpURem: "bvurem", OpSRem: "bvsrem", OpBAnd: "bvand", OpBOr: "bvor", OpBXor: "bvxor",
	OpBNot: "bvnot", OpNeg: "bvneg", OpShl: "bvshl", OpLshr: "bvlshr", OpAshr: "bvashr",
	OpUlt: "bvult", OpUle: "bvule", OpSlt: "bvslt", OpSle: "bvsle", OpConcat: "concat",
}

// Term is an immutable SMT term. W==0 means Bool, otherwise bit-vector width.
type Term struct {
	op     Op
	W      int
	args   []*Term
	val    *big.Int // OpConst
	name   string   // OpVar, OpUF
	hi, lo int      // OpExtract
	id     int
}

func (t *Term) IsConst() bool { return t.op == OpConst }
func (t *Term) IsBool() bool  { return t.W == 0 }

// U64 returns the constant as uint64 (truncated).
func (t *Term) U64() uint64 { return t.val.Uint64() }

// I64 returns the constant interpreted as signed W-bit.
func (t *Term) I64() int64 {
	v := new(big.Int).Set(t.val)
	if t.W > 0 && v.Bit(t.W-1) == 1 {
		v.Sub(v, new(big.Int).Lsh(big.NewInt(1), uint(t.W)))
	}
	return v.Int64()
}
func (t *Term) True() bool  { return t.op == OpConst && t.W == 0 && t.val.Sign() != 0 }
func (t *Term) False() bool { return t.op == OpConst && t.W == 0 && t.val.Sign() == 0 }

// TB builds terms (one per machine; not shared between goroutines).
type TB struct {
	tab    map[string]*Term
	nextID int
	consts map[[2]uint64]*Term
	vars   []*Term          // declared variables in creation order
	ufs    map[string]ufSig // UF name -> signature
	ufOrd  []string
	ufApps []*Term
	nfresh int
}

type ufSig struct {
	argW []int
	resW int
}

func NewTB() *TB {
	return &TB{tab: map[string]*Term{}, consts: map[[2]uint64]*Term{}, ufs: map[string]ufSig{}}
}

var bigOne = big.NewInt(1)

func mask(w int) *big.Int {
	return new(big.Int).Sub(new(big.Int).Lsh(bigOne, uint(w)), bigOne)
}

func norm(v *big.Int, w int) *big.Int {
	if w == 0 {
		if v.Sign() != 0 {
			return big.NewInt(1)
		}
		return big.NewInt(0)
	}
	r := new(big.Int).And(v, mask(w)) // big.Int And on negative uses two's complement semantics
	return r
}

func signedVal(v *big.Int, w int) *big.Int {
	r := new(big.Int).Set(v)
	if w > 0 && r.Bit(w-1) == 1 {
		r.Sub(r, new(big.Int).Lsh(bigOne, uint(w)))
	}
	return r
}

func (b *TB) ConstBig(v *big.Int, w int) *Term {
	n := norm(v, w)
	if n.IsUint64() {
		k := [2]uint64{uint64(w), n.Uint64()}
		if t, ok := b.consts[k]; ok {
			return t
		}
		t := &Term{op: OpConst, W: w, val: n}
		b.consts[k] = t
		return t
	}
	return &Term{op: OpConst, W: w, val: n}
}
func (b *TB) Const(v uint64, w int) *Term { return b.ConstBig(new(big.Int).SetUint64(v), w) }
func (b *TB) ConstI(v int64, w int) *Term { return b.ConstBig(big.NewInt(v), w) }
func (b *TB) Bool(v bool) *Term {
	if v {
		return b.Const(1, 0)
	}
	return b.Const(0, 0)
}

func sameTerm(x, y *Term) bool {
	if x == y {
		return true
	}
	if x.op == OpConst && y.op == OpConst {
		return x.W == y.W && x.val.Cmp(y.val) == 0
	}
	return false
}

func (b *TB) mk(op Op, w int, name string, hi, lo int, args ...*Term) *Term {
	var sb strings.Builder
	fmt.Fprintf(&sb, "%d:%d:%s:%d:%d", op, w, name, hi, lo)
	for _, a := range args {
		if a.op == OpConst {
			fmt.Fprintf(&sb, ",c%d_%s", a.W, a.val.Text(16))
		} else {
			fmt.Fprintf(&sb, ",%d", a.id)
		}
	}
	k := sb.String()
	if t, ok := b.tab[k]; ok {
		return t
	}
	b.nextID++
	t := &Term{op: op, W: w, name: name, hi: hi, lo: lo, args: append([]*Term(nil), args...), id: b.nextID}
	b.tab[k] = t
	return t
}

// Var declares (or returns) a named variable.
func (b *TB) Var(name string, w int) *Term {
	k := fmt.Sprintf("%d:%d:%s:0:0", OpVar, w, name)
	if t, ok := b.tab[k]; ok {
		return t
	}
	t := b.mk(OpVar, w, name, 0, 0)
	b.vars = append(b.vars, t)
	return t
}

func (b *TB) Fresh(prefix string, w int) *Term {
	b.nfresh++
	return b.Var(fmt.Sprintf("%s!%d", prefix, b.nfresh), w)
}

func (b *TB) UF(name string, resW int, args ...*Term) *Term {
	sig, ok := b.ufs[name]
	if !ok {
		sig = ufSig{resW: resW}
		for _, a := range args {
			sig.argW = append(sig.argW, a.W)
		}
		b.ufs[name] = sig
		b.ufOrd = append(b.ufOrd, name)
	} else {
		if sig.resW != resW || len(sig.argW) != len(args) {
			panic("UF signature mismatch: " + name)
		}
		for i, a := range args {
			if sig.argW[i] != a.W {
				panic("UF signature mismatch: " + name)
			}
		}
	}
	before := b.nextID
	t := b.mk(OpUF, resW, name, 0, 0, args...)
	if b.nextID != before {
		b.ufApps = append(b.ufApps, t)
	}
	return t
}

func (b *TB) Not(x *Term) *Term {
	if x.op == OpConst {
		return b.Bool(x.val.Sign() == 0)
	}
	if x.op == OpNot {
		return x.args[0]
	}
	return b.mk(OpNot, 0, "", 0, 0, x)
}

func (b *TB) And(xs ...*Term) *Term {
	var out []*Term
	for _, x := range xs {
		if x.op == OpConst {
			if x.val.Sign() == 0 {
				return b.Bool(false)
			}
			continue
		}
		dup := false
		for _, o := range out {
			if o == x {
				dup = true
			}
		}
		if !dup {
			out = append(out, x)
		}
	}
	if len(out) == 0 {
		return b.Bool(true)
	}
	if len(out) == 1 {
		return out[0]
	}
	return b.mk(OpAnd, 0, "", 0, 0, out...)
}

func (b *TB) Or(xs ...*Term) *Term {
	var out []*Term
	for _, x := range xs {
		if x.op == OpConst {
			if x.val.Sign() != 0 {
				return b.Bool(true)
			}
			continue
		}
		dup := false
		for _, o := range out {
			if o == x {
				dup = true
			}
		}
		if !dup {
			out = append(out, x)
		}
	}
	if len(out) == 0 {
		return b.Bool(false)
	}
	if len(out) == 1 {
		return out[0]
	}
	return b.mk(OpOr, 0, "", 0, 0, out...)
}

func (b *TB) Implies(x, y *Term) *Term { return b.Or(b.Not(x), y) }

func (b *TB) Eq(x, y *Term) *Term {
	if x.W != y.W {
		panic(fmt.Sprintf("Eq width mismatch %d vs %d", x.W, y.W))
	}
	if sameTerm(x, y) {
		return b.Bool(true)
	}
	if x.op == OpConst && y.op == OpConst {
		return b.Bool(false)
	}
	if x.W == 0 {
		// bool equality with a constant
		if x.op == OpConst {
			x, y = y, x
		}
		if y.op == OpConst {
			if y.val.Sign() != 0 {
				return x
			}
			return b.Not(x)
		}
	}
	if x.op == OpConst || (y.op != OpConst && x.id > y.id) {
		x, y = y, x
	}
	return b.mk(OpEq, 0, "", 0, 0, x, y)
}

func (b *TB) Ite(c, x, y *Term) *Term {
	if c.op == OpConst {
		if c.val.Sign() != 0 {
			return x
		}
		return y
	}
	if sameTerm(x, y) {
		return x
	}
	if x.W == 0 && x.op == OpConst && y.op == OpConst {
		if x.True() {
			return c
		}
		return b.Not(c)
	}
	return b.mk(OpIte, x.W, "", 0, 0, c, x, y)
}

func (b *TB) bin(op Op, x, y *Term) *Term {
	if x.W != y.W {
		panic(fmt.Sprintf("binop %s width mismatch %d vs %d", opSMT[op], x.W, y.W))
	}
	w := x.W
	if x.op == OpConst && y.op == OpConst {
		a, c := x.val, y.val
		r := new(big.Int)
		switch op {
		case OpAdd:
			r.Add(a, c)
		case OpSub:
			r.Sub(a, c)
		case OpMul:
			r.Mul(a, c)
		case OpUDiv:
			if c.Sign() == 0 {
				r = mask(w)
			} else {
				r.Div(a, c)
			}
		case OpURem:
			if c.Sign() == 0 {
				r.Set(a)
			} else {
				r.Mod(a, c)
			}
		case OpSDiv:
			sa, sc := signedVal(a, w), signedVal(c, w)
			if sc.Sign() == 0 {
				if sa.Sign() < 0 {
					r.SetInt64(1)
				} else {
					r = mask(w)
				}
			} else {
				r.Quo(sa, sc)
			}
		case OpSRem:
			sa, sc := signedVal(a, w), signedVal(c, w)
			if sc.Sign() == 0 {
				r.Set(sa)
			} else {
				r.Rem(sa, sc)
			}
		case OpBAnd:
			r.And(a, c)
		case OpBOr:
			r.Or(a, c)
		case OpBXor:
			r.Xor(a, c)
		case OpShl:
			if c.Cmp(big.NewInt(int64(w))) >= 0 {
				r.SetInt64(0)
			} else {
				r.Lsh(a, uint(c.Uint64()))
			}
		case OpLshr:
			if c.Cmp(big.NewInt(int64(w))) >= 0 {
				r.SetInt64(0)
			} else {
				r.Rsh(a, uint(c.Uint64()))
			}
		case OpAshr:
			sa := signedVal(a, w)
			sh := uint(w)
			if c.Cmp(big.NewInt(int64(w))) < 0 {
				sh = uint(c.Uint64())
			}
			r.Rsh(sa, sh)
		default:
			panic("bin fold")
		}
		return b.ConstBig(r, w)
	}
	// light algebraic simplification
	switch op {
	case OpAdd, OpBOr, OpBXor:
		if x.op == OpConst && x.val.Sign() == 0 {
			return y
		}
		if y.op == OpConst && y.val.Sign() == 0 {
			return x
		}
	case OpSub, OpShl, OpLshr, OpAshr:
		if y.op == OpConst && y.val.Sign() == 0 {
			return x
		}
	case OpMul:
		if x.op == OpConst && x.val.Cmp(bigOne) == 0 {
			return y
		}
		if y.op == OpConst && y.val.Cmp(bigOne) == 0 {
			return x
		}
		if (x.op == OpConst && x.val.Sign() == 0) || (y.op == OpConst && y.val.Sign() == 0) {
			return b.Const(0, w)
		}
	case OpBAnd:
		if (x.op == OpConst && x.val.Sign() == 0) || (y.op == OpConst && y.val.Sign() == 0) {
			return b.Const(0, w)
		}
		if x.op == OpConst && x.val.Cmp(mask(w)) == 0 {
			return y
		}
		if y.op == OpConst && y.val.Cmp(mask(w)) == 0 {
			return x
		}
	}
	// byte-aligned shifts of extended bytes become concats (keeps BigEndian round trips small)
	if (op == OpShl || op == OpLshr) && y.op == OpConst && y.val.IsUint64() {
		k := int(y.val.Uint64())
		if k >= w {
			return b.Const(0, w)
		}
		if op == OpShl {
			return b.Concat(b.Extract(x, w-k-1, 0), b.Const(0, k))
		}
		return b.Concat(b.Const(0, k), b.Extract(x, w-1, k))
	}
	if op == OpBOr {
		if r := b.orConcat(x, y); r != nil {
			return r
		}
	}
	return b.mk(op, w, "", 0, 0, x, y)
}

// pieces splits a term into concat pieces (msb first).
func pieces(t *Term) []*Term {
	if t.op == OpZext {
		return append([]*Term{{op: OpConst, W: t.W - t.args[0].W, val: new(big.Int)}}, pieces(t.args[0])...)
	}
	if t.op == OpConcat {
		var out []*Term
		for _, a := range t.args {
			out = append(out, pieces(a)...)
		}
		return out
	}
	return []*Term{t}
}

// orConcat: OR of two concats whose non-zero pieces do not overlap -> concat.
func (b *TB) orConcat(x, y *Term) *Term {
	isCat := func(t *Term) bool { return t.op == OpConcat || t.op == OpZext }
	if !isCat(x) && !isCat(y) {
		return nil
	}
	px, py := pieces(x), pieces(y)
	// cut both at the union of boundaries
	bounds := map[int]bool{}
	add := func(ps []*Term) {
		pos := 0
		for _, p := range ps {
			pos += p.W
			bounds[pos] = true
		}
	}
	add(px)
	add(py)
	cut := func(ps []*Term) []*Term {
		var out []*Term
		pos := 0
		for _, p := range ps {
			start := pos
			last := 0
			for i := 1; i <= p.W; i++ {
				if bounds[start+i] {
					// piece bits (msb-first) [last, i)
					hi := p.W - 1 - last
					lo := p.W - i
					out = append(out, b.Extract(p, hi, lo))
					last = i
				}
			}
			pos += p.W
		}
		return out
	}
	cx, cy := cut(px), cut(py)
	if len(cx) != len(cy) {
		return nil
	}
	res := make([]*Term, len(cx))
	for i := range cx {
		zx := cx[i].op == OpConst && cx[i].val.Sign() == 0
		zy := cy[i].op == OpConst && cy[i].val.Sign() == 0
		switch {
		case zx:
			res[i] = cy[i]
		case zy:
			res[i] = cx[i]
		case cx[i].op == OpConst && cy[i].op == OpConst:
			res[i] = b.ConstBig(new(big.Int).Or(cx[i].val, cy[i].val), cx[i].W)
		default:
			return nil
		}
	}
	return b.Concat(res...)
}

func (b *TB) Add(x, y *Term) *Term  { return b.bin(OpAdd, x, y) }
func (b *TB) Sub(x, y *Term) *Term  { return b.bin(OpSub, x, y) }
func (b *TB) Mul(x, y *Term) *Term  { return b.bin(OpMul, x, y) }
func (b *TB) BAnd(x, y *Term) *Term { return b.bin(OpBAnd, x, y) }
func (b *TB) BOr(x, y *Term) *Term  { return b.bin(OpBOr, x, y) }

func (b *TB) cmp(op Op, x, y *Term) *Term {
	if x.W != y.W {
		panic(fmt.Sprintf("cmp width mismatch %d vs %d", x.W, y.W))
	}
	if x.op == OpConst && y.op == OpConst {
		var a, c *big.Int
		if op == OpSlt || op == OpSle {
			a, c = signedVal(x.val, x.W), signedVal(y.val, y.W)
		} else {
			a, c = x.val, y.val
		}
		r := a.Cmp(c)
		if op == OpUlt || op == OpSlt {
			return b.Bool(r < 0)
		}
		return b.Bool(r <= 0)
	}
	if x == y {
		return b.Bool(op == OpUle || op == OpSle)
	}
	if op == OpUlt && y.op == OpConst && y.val.Sign() == 0 {
		return b.Bool(false)
	}
	if op == OpUle && x.op == OpConst && x.val.Sign() == 0 {
		return b.Bool(true)
	}
	return b.mk(op, 0, "", 0, 0, x, y)
}
func (b *TB) Ult(x, y *Term) *Term { return b.cmp(OpUlt, x, y) }
func (b *TB) Ule(x, y *Term) *Term { return b.cmp(OpUle, x, y) }
func (b *TB) Slt(x, y *Term) *Term { return b.cmp(OpSlt, x, y) }
func (b *TB) Sle(x, y *Term) *Term { return b.cmp(OpSle, x, y) }

func (b *TB) BNot(x *Term) *Term {
	if x.op == OpConst {
		return b.ConstBig(new(big.Int).Xor(x.val, mask(x.W)), x.W)
	}
	return b.mk(OpBNot, x.W, "", 0, 0, x)
}
func (b *TB) Neg(x *Term) *Term {
	if x.op == OpConst {
		return b.ConstBig(new(big.Int).Neg(x.val), x.W)
	}
	return b.mk(OpNeg, x.W, "", 0, 0, x)
}

func (b *TB) Extract(x *Term, hi, lo int) *Term {
	if hi < lo || hi >= x.W || lo < 0 {
		panic(fmt.Sprintf("bad extract [%d:%d] of width %d", hi, lo, x.W))
	}
	if lo == 0 && hi == x.W-1 {
		return x
	}
	w := hi - lo + 1
	switch x.op {
	case OpConst:
		return b.ConstBig(new(big.Int).Rsh(x.val, uint(lo)), w)
	case OpExtract:
		return b.Extract(x.args[0], x.lo+hi, x.lo+lo)
	case OpConcat:
		// select the pieces covering [hi:lo]
		pos := x.W
		var out []*Term
		for _, p := range x.args {
			phi, plo := pos-1, pos-p.W
			pos -= p.W
			if phi < lo || plo > hi {
				continue
			}
			h, l := hi, lo
			if h > phi {
				h = phi
			}
			if l < plo {
				l = plo
			}
			out = append(out, b.Extract(p, h-plo, l-plo))
		}
		return b.Concat(out...)
	case OpZext:
		a := x.args[0]
		if hi < a.W {
			return b.Extract(a, hi, lo)
		}
		if lo >= a.W {
			return b.Const(0, w)
		}
		return b.Concat(b.Const(0, hi-a.W+1), b.Extract(a, a.W-1, lo))
	}
	return b.mk(OpExtract, w, "", hi, lo, x)
}

func (b *TB) Concat(xs ...*Term) *Term {
	// flatten, merge constants and adjacent extracts of the same term
	var flat []*Term
	for _, x := range xs {
		if x.op == OpConcat {
			flat = append(flat, x.args...)
		} else {
			flat = append(flat, x)
		}
	}
	var out []*Term
	for _, x := range flat {
		if n := len(out); n > 0 {
			p := out[n-1]
			if p.op == OpConst && x.op == OpConst {
				v := new(big.Int).Lsh(p.val, uint(x.W))
				v.Or(v, x.val)
				out[n-1] = b.ConstBig(v, p.W+x.W)
				continue
			}
			if p.op == OpExtract && x.op == OpExtract && p.args[0] == x.args[0] && p.lo == x.hi+1 {
				out[n-1] = b.Extract(p.args[0], p.hi, x.lo)
				continue
			}
		}
		out = append(out, x)
	}
	if len(out) == 1 {
		return out[0]
	}
	w := 0
	for _, x := range out {
		w += x.W
	}
	// leading zero constant -> zext
	if out[0].op == OpConst && out[0].val.Sign() == 0 && len(out) == 2 {
		return b.mk(OpZext, w, "", 0, 0, out[1])
	}
	return b.mk(OpConcat, w, "", 0, 0, out...)
}

func (b *TB) Zext(x *Term, w int) *Term {
	if w == x.W {
		return x
	}
	if w < x.W {
		return b.Extract(x, w-1, 0)
	}
	if x.op == OpConst {
		return b.ConstBig(x.val, w)
	}
	if x.op == OpZext {
		return b.Zext(x.args[0], w)
	}
	return b.mk(OpZext, w, "", 0, 0, x)
}

func (b *TB) Sext(x *Term, w int) *Term {
	if w == x.W {
		return x
	}
	if w < x.W {
		return b.Extract(x, w-1, 0)
	}
	if x.op == OpConst {
		return b.ConstBig(signedVal(x.val, x.W), w)
	}
	return b.mk(OpSext, w, "", 0, 0, x)
}

// ---- SMT-LIB printing -------------------------------------------------

func sortStr(w int) string {
	if w == 0 {
		return "Bool"
	}
	return fmt.Sprintf("(_ BitVec %d)", w)
}

func smtName(s string) string {
	return "|" + strings.NewReplacer("|", "_", "\\", "_").Replace(s) + "|"
}

func constStr(t *Term) string {
	if t.W == 0 {
		if t.val.Sign() != 0 {
			return "true"
		}
		return "false"
	}
	if t.W%4 == 0 {
		s := t.val.Text(16)
		return "#x" + strings.Repeat("0", t.W/4-len(s)) + s
	}
	s := t.val.Text(2)
	return "#b" + strings.Repeat("0", t.W-len(s)) + s
}

// ref returns how a (possibly already defined) term is referenced.
func ref(t *Term) string {
	switch t.op {
	case OpConst:
		return constStr(t)
	case OpVar:
		return smtName(t.name)
	}
	return fmt.Sprintf("t%d", t.id)
}

// body prints the term's own node with children referenced by name.
func body(t *Term) string {
	var sb strings.Builder
	switch t.op {
	case OpExtract:
		fmt.Fprintf(&sb, "((_ extract %d %d) %s)", t.hi, t.lo, ref(t.args[0]))
	case OpZext:
		fmt.Fprintf(&sb, "((_ zero_extend %d) %s)", t.W-t.args[0].W, ref(t.args[0]))
	case OpSext:
		fmt.Fprintf(&sb, "((_ sign_extend %d) %s)", t.W-t.args[0].W, ref(t.args[0]))
	case OpUF:
		if len(t.args) == 0 {
			return smtName(t.name)
		}
		sb.WriteString("(" + smtName(t.name))
		for _, a := range t.args {
			sb.WriteString(" " + ref(a))
		}
		sb.WriteString(")")
	default:
		sb.WriteString("(" + opSMT[t.op])
		for _, a := range t.args {
			sb.WriteString(" " + ref(a))
		}
		sb.WriteString(")")
	}
	return sb.String()
}

// String renders a term fully inlined (for diagnostics; may be large).
func (t *Term) String() string {
	switch t.op {
	case OpConst, OpVar:
		return ref(t)
	}
	var sb strings.Builder
	switch t.op {
	case OpExtract:
		fmt.Fprintf(&sb, "((_ extract %d %d) %s)", t.hi, t.lo, t.args[0])
	case OpZext:
		fmt.Fprintf(&sb, "((_ zero_extend %d) %s)", t.W-t.args[0].W, t.args[0])
	case OpSext:
		fmt.Fprintf(&sb, "((_ sign_extend %d) %s)", t.W-t.args[0].W, t.args[0])
	case OpUF:
		sb.WriteString("(" + t.name)
		for _, a := range t.args {
			sb.WriteString(" " + a.String())
		}
		sb.WriteString(")")
	default:
		sb.WriteString("(" + opSMT[t.op])
		for _, a := range t.args {
			sb.WriteString(" " + a.String())
		}
		sb.WriteString(")")
	}
	s := sb.String()
	if len(s) > 400 {
		return s[:400] + "…"
	}
	return s
}
