package main

// hash.Hash objects (crypto.Hash.New, sha256.New, sha3 legacy keccak): bytes are accumulated
// and Sum applies the family's injective uninterpreted function.

import (
	"go/types"
	"strconv"

	"golang.org/x/tools/go/ssa"
)

type HasherObj struct {
	family string
	size   int
	buf    []*Term
}

func (h *HasherObj) HasMethod(n string) bool { return true }
func (h *HasherObj) cloneNative(cm *cloneMemo) interface{} {
	c := *h
	c.buf = append([]*Term(nil), h.buf...)
	return &c
}
func (h *HasherObj) Invoke(m *Machine, method string, a []Value) Value {
	switch method {
	case "Write":
		bs := m.bytesArg(a[0])
		h.buf = append(h.buf, bs...)
		return Tuple{m.tb.ConstI(int64(len(bs)), 64), Iface{}}
	case "Sum":
		out := m.hashUF(h.family, h.buf, h.size)
		add := make([]Value, len(out))
		for i, t := range out {
			add[i] = t
		}
		if sl, ok := a[0].(Slice); ok && !sl.IsNil() {
			return Slice{v: goAppend(sl.v, add)} // appends in place when the capacity allows (hash.Sum(buf[:0]))
		}
		return Slice{v: add}
	case "Read": // sha3 ShakeHash / KeccakState
		sl := a[0].(Slice)
		out := m.hashUF(h.family, h.buf, len(sl.v))
		for i := range sl.v {
			sl.v[i] = out[i]
		}
		return Tuple{m.tb.ConstI(int64(len(sl.v)), 64), Iface{}}
	case "Reset":
		h.buf = nil
		return nil
	case "Size":
		return m.tb.ConstI(int64(h.size), 64)
	case "BlockSize":
		return m.tb.ConstI(64, 64)
	}
	panic(unsupported("hash.Hash method " + method))
}

func registerHash(p *Program) {
	I := p.intrinsics
	mk := func(family string, size int) Intrinsic {
		return func(m *Machine, fr *Frame, fn *ssa.Function, a []Value) Value {
			return Iface{t: m.p.ntype("native.Hash"), v: &HasherObj{family: family, size: size}}
		}
	}
	I["crypto/sha256.New"] = mk("sha256", 32)
	I["golang.org/x/crypto/sha3.NewLegacyKeccak256"] = mk("keccak256", 32)
	I["crypto/sha512.New"] = mk("sha512", 64)
	I["(crypto.Hash).New"] = func(m *Machine, fr *Frame, fn *ssa.Function, a []Value) Value {
		id := a[0].(*Term).U64()
		switch id {
		case 5: // crypto.SHA256
			return Iface{t: m.p.ntype("native.Hash"), v: &HasherObj{family: "sha256", size: 32}}
		case 7: // crypto.SHA512
			return Iface{t: m.p.ntype("native.Hash"), v: &HasherObj{family: "sha512", size: 64}}
		case 9: // crypto.RIPEMD160
			return Iface{t: m.p.ntype("native.Hash"), v: &HasherObj{family: "ripemd160", size: 20}}
		}
		panic(unsupported("crypto.Hash.New for this hash id"))
	}
	I["(crypto.Hash).Available"] = func(m *Machine, fr *Frame, fn *ssa.Function, a []Value) Value { return m.tb.Bool(true) }
	keccak := func(m *Machine, fr *Frame, fn *ssa.Function, a []Value) Value {
		var in []*Term
		for _, part := range a[0].(Slice).v {
			in = append(in, m.bytesArg(part)...)
		}
		return m.mkBytes(m.hashUF("keccak256", in, 32))
	}
	I["github.com/ethereum/go-ethereum/crypto.Keccak256"] = keccak
	I["github.com/ethereum/go-ethereum/crypto.Keccak256Hash"] = func(m *Machine, fr *Frame, fn *ssa.Function, a []Value) Value {
		var in []*Term
		for _, part := range a[0].(Slice).v {
			in = append(in, m.bytesArg(part)...)
		}
		out := m.hashUF("keccak256", in, 32)
		arr := make(Array, 32)
		for i := range arr {
			arr[i] = out[i]
		}
		return arr
	}
	// hex renderings of addresses / hashes are only used in messages: opaque strings
	for _, n := range []string{"(github.com/ethereum/go-ethereum/common.Hash).Hex", "(github.com/ethereum/go-ethereum/common.Hash).String"} {
		I[n] = func(m *Machine, fr *Frame, fn *ssa.Function, a []Value) Value {
			arr := a[0].(Array)
			bs := make([]*Term, len(arr))
			for i, e := range arr {
				bs[i] = e.(*Term)
			}
			return &Str{b: append(m.mkStr("0x").b, m.hexEncode(bs, false)...)} // exact: these strings are used in store keys
		}
	}
	for _, n := range []string{"(github.com/ethereum/go-ethereum/common.Address).Hex", "(github.com/ethereum/go-ethereum/common.Address).String",
		"(github.com/ethereum/go-ethereum/common.Hash).TerminalString"} {
		I[n] = func(m *Machine, fr *Frame, fn *ssa.Function, a []Value) Value {
			return &Str{b: m.mkStr("0x<hex>").b, tainted: true}
		}
	}
	I["(*sync.Pool).Get"] = func(m *Machine, fr *Frame, fn *ssa.Function, a []Value) Value {
		p := a[0].(*Value)
		st := (*p).(Struct)
		sty := under(deref(fn.Signature.Recv().Type())).(*types.Struct)
		for i := 0; i < sty.NumFields(); i++ {
			if sty.Field(i).Name() == "New" {
				if st[i] == nil {
					return Iface{}
				}
				if f, ok := st[i].(*ssa.Function); ok && f == nil {
					return Iface{}
				}
				return m.call(fr, st[i], nil)
			}
		}
		return Iface{}
	}
	I["(*sync.Pool).Put"] = func(m *Machine, fr *Frame, fn *ssa.Function, a []Value) Value { return nil }
	I["github.com/ethereum/go-ethereum/rlp.Encode"] = func(m *Machine, fr *Frame, fn *ssa.Function, a []Value) Value {
		w := a[0].(Iface)
		iv := a[1].(Iface)
		if iv.t == nil {
			return m.errIface(&ErrObj{kind: "new", msg: "rlp: nil"})
		}
		pl := iv.v
		if p, ok := pl.(*Value); ok && p != nil {
			pl = *p
		}
		bz := m.marshalOpaque("rlp", pl, iv.t)
		if nat, ok := w.v.(Native); ok {
			nat.Invoke(m, "Write", []Value{bz})
			return Iface{}
		}
		panic(unsupported("rlp.Encode into a non-native writer"))
	}
	// net/url escaping of path segments, byte by byte: a concrete byte is escaped / unescaped as the
	// real package does; a symbolic byte must be one that PathEscape leaves alone (the path is
	// unsupported otherwise, where that is feasible)
	I["net/url.PathUnescape"] = func(m *Machine, fr *Frame, fn *ssa.Function, a []Value) Value {
		s := m.strArg(a[0])
		var out []*Term
		for i := 0; i < len(s.b); i++ {
			c := s.b[i]
			if c.IsConst() {
				if byte(c.U64()) != '%' {
					out = append(out, c)
					continue
				}
				if i+2 > len(s.b)-1 {
					panic(unsupported("url.PathUnescape: truncated escape"))
				}
				h1, h2 := s.b[i+1], s.b[i+2]
				if !h1.IsConst() || !h2.IsConst() {
					panic(unsupported("url.PathUnescape: symbolic escape digits"))
				}
				v, err := strconv.ParseUint(string([]byte{byte(h1.U64()), byte(h2.U64())}), 16, 8)
				if err != nil {
					panic(unsupported("url.PathUnescape: invalid escape"))
				}
				out = append(out, m.tb.Const(v, 8))
				i += 2
				continue
			}
			if m.decide(m.tb.Eq(c, m.tb.Const('%', 8))) {
				panic(unsupported("url.PathUnescape of a string with a symbolic '%'"))
			}
			out = append(out, c)
		}
		return Tuple{&Str{b: out}, Iface{}}
	}
	I["net/url.PathEscape"] = func(m *Machine, fr *Frame, fn *ssa.Function, a []Value) Value {
		s := m.strArg(a[0])
		if s.IsConcrete() {
			return m.mkStr(pathEscape(s.Concrete()))
		}
		var out []*Term
		for _, c := range s.b {
			if c.IsConst() {
				for _, e := range []byte(pathEscape(string([]byte{byte(c.U64())}))) {
					out = append(out, m.tb.Const(uint64(e), 8))
				}
				continue
			}
			if !m.decide(m.alphabetConstraint(c, urlPathSafe)) {
				panic(unsupported("url.PathEscape of a symbolic byte that needs escaping"))
			}
			out = append(out, c)
		}
		return &Str{b: out}
	}
}

// bytes that url.PathEscape leaves unchanged
const urlPathSafe = "abcdefghijklmnopqrstuvwxyzABCDEFGHIJKLMNOPQRSTUVWXYZ0123456789-_.~$&+=:@"

func pathEscape(s string) string { return urlPathEscape(s) }
