package main

// Program: loads /repo's current working tree (plus harness overlay) with
// go/packages, builds SSA lazily per package, and holds everything that is
// shared between paths: intrinsic table, template globals, configuration.

import (
	"fmt"
	"go/token"
	"go/types"
	"io"
	"os"
	"path/filepath"
	"strings"
	"sync"
	"time"

	"golang.org/x/tools/go/packages"
	"golang.org/x/tools/go/ssa"
	"golang.org/x/tools/go/ssa/ssautil"
)

type Intrinsic func(m *Machine, caller *Frame, fn *ssa.Function, args []Value) Value

type Program struct {
	prog        *ssa.Program
	pkgs        []*packages.Package
	harness     *ssa.Package
	intrinsics  map[string]Intrinsic
	intrCache   sync.Map // *ssa.Function -> Intrinsic (or nil marker)
	template    *Machine
	initMu      sync.Mutex
	initDone    map[*ssa.Package]bool
	initBusy    map[*ssa.Package]bool
	buildMu     sync.Mutex
	built       map[*ssa.Package]bool
	nativeErrType types.Type
	nativeTypes map[string]types.Type
	trace       bool
	traceW      io.Writer
	maxSteps    int
	unwind      int
	loadSecs    float64
	initLog     []string
	usedFuncs   sync.Map // function name -> instruction count (functions executed from SSA bodies)
	usedIntr    sync.Map // intrinsic names used
	repo        string
	methodCache sync.Map
}

func nativeType(name string) types.Type {
	return types.NewNamed(types.NewTypeName(token.NoPos, nil, name, nil), types.NewStruct(nil, nil), nil)
}

// LoadProgram loads the harness package at repo/zzverif/<group> from an overlay.
func LoadProgram(repo, verifDir, group string) (*Program, error) {
	t0 := time.Now()
	overlay := map[string][]byte{}
	addDir := func(src, dstRel string) error {
		ents, err := os.ReadDir(src)
		if err != nil {
			return err
		}
		for _, e := range ents {
			if e.IsDir() || !strings.HasSuffix(e.Name(), ".go") || strings.HasSuffix(e.Name(), "_test.go") {
				continue
			}
			b, err := os.ReadFile(filepath.Join(src, e.Name()))
			if err != nil {
				return err
			}
			overlay[filepath.Join(repo, dstRel, e.Name())] = b
		}
		return nil
	}
	if err := addDir(filepath.Join(verifDir, "vp"), "zzverif/vp"); err != nil {
		return nil, err
	}
	if err := addDir(filepath.Join(verifDir, "harness", group), "zzverif/"+group); err != nil {
		return nil, err
	}
	if err := addDir(filepath.Join(verifDir, "vp", "oracle"), "zzverif/oracle"); err != nil {
		return nil, err
	}
	loadEnv := append(os.Environ(), "GOFLAGS=-mod=mod", "GOPROXY=off", "GOSUMDB=off", "GOTOOLCHAIN=local", "GODEBUG=goindex=0")
	stubbed, err := patchedSources(repo, verifDir, group, loadEnv)
	if err != nil {
		return nil, err
	}
	for path, content := range stubbed {
		overlay[path] = content
	}
	cfg := &packages.Config{
		Mode: packages.NeedName | packages.NeedFiles | packages.NeedCompiledGoFiles | packages.NeedImports |
			packages.NeedDeps | packages.NeedTypes | packages.NeedSyntax | packages.NeedTypesInfo | packages.NeedTypesSizes | packages.NeedModule,
		Dir:     repo,
		Overlay: overlay,
		Env:     loadEnv,
	}
	pkgs, err := packages.Load(cfg, "./zzverif/"+group)
	if err != nil {
		return nil, err
	}
	var errs []string
	packages.Visit(pkgs, nil, func(p *packages.Package) {
		for _, e := range p.Errors {
			errs = append(errs, e.Error())
		}
	})
	if len(errs) > 0 {
		if len(errs) > 20 {
			errs = errs[:20]
		}
		return nil, fmt.Errorf("package load errors:\n%s", strings.Join(errs, "\n"))
	}
	prog, spkgs := ssautil.AllPackages(pkgs, ssa.InstantiateGenerics)
	p := &Program{prog: prog, pkgs: pkgs, intrinsics: map[string]Intrinsic{}, initDone: map[*ssa.Package]bool{},
		initBusy: map[*ssa.Package]bool{}, built: map[*ssa.Package]bool{}, maxSteps: 3_000_000, unwind: 12, repo: repo,
		nativeTypes: map[string]types.Type{}}
	p.harness = spkgs[0]
	if p.harness == nil {
		return nil, fmt.Errorf("harness package did not build")
	}
	p.nativeErrType = nativeType("native.error")
	p.build(p.harness)
	registerIntrinsics(p)
	p.template = p.newMachine(nil, nil)
	p.template.isTemplate = true
	p.loadSecs = time.Since(t0).Seconds()
	return p, nil
}

func (p *Program) ntype(name string) types.Type {
	p.buildMu.Lock()
	defer p.buildMu.Unlock()
	if t, ok := p.nativeTypes[name]; ok {
		return t
	}
	t := nativeType(name)
	p.nativeTypes[name] = t
	return t
}

func (p *Program) build(pkg *ssa.Package) {
	if pkg == nil {
		return
	}
	p.buildMu.Lock()
	defer p.buildMu.Unlock()
	if p.built[pkg] {
		return
	}
	pkg.Build()
	p.built[pkg] = true
}

// body makes sure the function's package is built.
func (p *Program) ensureBody(fn *ssa.Function) {
	if fn.Blocks != nil {
		return
	}
	pkg := fn.Pkg
	if pkg == nil {
		if o := fn.Origin(); o != nil {
			pkg = o.Pkg
		}
		if pkg == nil && fn.Parent() != nil {
			pkg = fn.Parent().Pkg
		}
	}
	if pkg != nil {
		p.build(pkg)
	}
}

func (p *Program) intrinsicFor(fn *ssa.Function) Intrinsic {
	if v, ok := p.intrCache.Load(fn); ok {
		if v == nil {
			return nil
		}
		in := v.(Intrinsic)
		return in
	}
	name := fn.String()
	in, ok := p.intrinsics[name]
	if !ok {
		// generic instantiations: match on the origin's name
		if o := fn.Origin(); o != nil {
			in, ok = p.intrinsics[o.String()]
		}
	}
	if !ok {
		if pb := p.pbIntrinsic(fn); pb != nil {
			in, ok = pb, true
		}
	}
	if !ok {
		// bound-method / thunk wrappers fall through to their bodies
		p.intrCache.Store(fn, nil)
		p.ensureBody(fn)
		if fn.Blocks != nil {
			n := 0
			for _, b := range fn.Blocks {
				n += len(b.Instrs)
			}
			p.usedFuncs.Store(name, n)
		}
		return nil
	}
	p.usedIntr.Store(name, true)
	p.intrCache.Store(fn, in)
	return in
}

func (p *Program) lookupMethod(t types.Type, meth *types.Func) *ssa.Function {
	type key struct {
		t types.Type
		m *types.Func
	}
	// types are canonical per go/types instance only for named; use string key
	k := t.String() + "|" + meth.FullName()
	if v, ok := p.methodCache.Load(k); ok {
		return v.(*ssa.Function)
	}
	p.buildMu.Lock()
	f := p.prog.LookupMethod(t, meth.Pkg(), meth.Name())
	p.buildMu.Unlock()
	if f != nil {
		p.methodCache.Store(k, f)
	}
	return f
}

// ---- package initialisation (concrete, tolerant, lazy) ------------------------

// ensureInitLocked runs pkg's initialisers on the template machine. Caller holds
// initMu (or is the template itself, re-entrantly).
func (p *Program) ensureInitLocked(pkg *ssa.Package) {
	if pkg == nil || p.initDone[pkg] || p.initBusy[pkg] {
		return
	}
	p.initBusy[pkg] = true
	defer func() { p.initBusy[pkg] = false; p.initDone[pkg] = true; p.applyGlobalOverrides(pkg) }()
	p.build(pkg)
	initFn := pkg.Func("init")
	if initFn == nil || initFn.Blocks == nil {
		return
	}
	tm := p.template
	fr := &Frame{m: tm, fn: initFn, env: map[ssa.Value]Value{}}
	// walk the blocks linearly in order; the guard check is skipped
	saveSteps := tm.steps
	for _, b := range initFn.Blocks {
		for _, instr := range b.Instrs {
			p.initInstr(tm, fr, pkg, instr)
		}
	}
	tm.steps = saveSteps
}

func (p *Program) initInstr(tm *Machine, fr *Frame, pkg *ssa.Package, instr ssa.Instruction) {
	switch in := instr.(type) {
	case *ssa.If, *ssa.Jump, *ssa.Return:
		return
	case *ssa.Call:
		if callee := in.Call.StaticCallee(); callee != nil && callee.Name() == "init" && callee.Pkg != pkg {
			return // dependency initialisers run lazily, on first use of one of their globals
		}
	case *ssa.Store:
		if g, ok := in.Addr.(*ssa.Global); ok && strings.HasPrefix(g.Name(), "init$guard") {
			return
		}
	case *ssa.UnOp:
		if g, ok := in.X.(*ssa.Global); ok && strings.HasPrefix(g.Name(), "init$guard") {
			fr.env[in] = tm.tb.Bool(false)
			return
		}
	}
	tm.steps = 0
	func() {
		defer func() {
			if r := recover(); r != nil {
				msg := ""
				switch r := r.(type) {
				case unsupportedErr:
					msg = "unsupported: " + r.msg
				case *goPanic:
					msg = "panic: " + r.msg
				case pathEnd:
					msg = "pathEnd " + r.kind
				default:
					msg = fmt.Sprintf("engine: %v", r)
				}
				p.initLog = append(p.initLog, fmt.Sprintf("%s: skipped %q: %s", pkg.Pkg.Path(), truncate(instr.String(), 80), truncate(msg, 160)))
				if v, ok := instr.(ssa.Value); ok {
					func() {
						defer func() { recover() }()
						fr.env[v] = tm.zero(v.Type())
					}()
				}
				tm.depth = 0
			}
		}()
		tm.visitInstr(fr, instr)
	}()
}

func truncate(s string, n int) string {
	if len(s) > n {
		return s[:n] + "…"
	}
	return s
}
