package main

// Value model: "concrete shape, symbolic leaves".
//
//   *Term              bool / all integer kinds (width from the static type)
//   Float              float64 (concrete only)
//   *Str               string: vector of 8-bit terms, concrete length
//   Slice              slice header over a Go []Value backing array (aliasing is real)
//   Array, Struct      []Value with value semantics (copied on load/store)
//   *Value             pointer (Go pointer into a cell / struct field / array element)
//   *Map               association list, insertion ordered
//   Iface              interface value (dynamic type, value)
//   *ssa.Function, *ssa.Builtin, *Closure, *NativeFn   functions
//   Tuple              multiple results
//   native objects     *SymCtx, *SymStore, *ErrObj, … (engine-implemented environment)

import (
	"fmt"
	"go/types"
	"strings"

	"golang.org/x/tools/go/ssa"
)

type Value interface{}

type Float struct{ v float64 }

type Str struct {
	b       []*Term
	tainted bool // content is a placeholder (opaque formatting); inspecting it is unsupported
}

type Slice struct {
	v    []Value // len/cap are Go's
	blob *Blob   // non-nil: opaque marshalled payload ([]byte kind)
}

func (s Slice) IsNil() bool { return s.v == nil && s.blob == nil }

type Array []Value
type Struct []Value
type Tuple []Value

type Map struct {
	keys []Value
	vals []Value
	kt   types.Type
}

type Iface struct {
	t types.Type // nil for the nil interface
	v Value
}

type Closure struct {
	fn  *ssa.Function
	env []Value
}

// NativeFn is an engine-implemented function value (e.g. a bound method of a native object).
type NativeFn struct {
	name string
	call func(m *Machine, args []Value) Value
}

// Blob is an opaque marshalled value: produced by codec intrinsics, consumed by the matching unmarshal.
type Blob struct {
	kind    string // "proto-iface", "proto", "json", …
	payload Value  // deep snapshot
	typ     types.Type
}

// Native is implemented by engine objects that receive method calls.
type Native interface {
	Invoke(m *Machine, method string, args []Value) Value
}

func (s *Str) Len() int { return len(s.b) }

func (s *Str) IsConcrete() bool {
	for _, t := range s.b {
		if !t.IsConst() {
			return false
		}
	}
	return true
}

func (s *Str) Concrete() string {
	bs := make([]byte, len(s.b))
	for i, t := range s.b {
		bs[i] = byte(t.U64())
	}
	return string(bs)
}

func (s *Str) String() string {
	var sb strings.Builder
	for _, t := range s.b {
		if t.IsConst() {
			c := byte(t.U64())
			if c >= 32 && c < 127 {
				sb.WriteByte(c)
			} else {
				fmt.Fprintf(&sb, "\\x%02x", c)
			}
		} else {
			sb.WriteString("‹" + ref(t) + "›")
		}
	}
	return sb.String()
}

func (m *Machine) mkStr(s string) *Str {
	b := make([]*Term, len(s))
	for i := 0; i < len(s); i++ {
		b[i] = m.tb.Const(uint64(s[i]), 8)
	}
	return &Str{b: b}
}

func (m *Machine) bytesOf(sl Slice) []*Term {
	out := make([]*Term, len(sl.v))
	for i, e := range sl.v {
		out[i] = e.(*Term)
	}
	return out
}

func (m *Machine) mkBytes(ts []*Term) Slice {
	v := make([]Value, len(ts))
	for i, t := range ts {
		v[i] = t
	}
	return Slice{v: v}
}

func (m *Machine) mkByteSliceConst(bs []byte) Slice {
	v := make([]Value, len(bs))
	for i, c := range bs {
		v[i] = m.tb.Const(uint64(c), 8)
	}
	return Slice{v: v}
}

// copyVal implements value semantics for aggregates.
func copyVal(v Value) Value {
	switch v := v.(type) {
	case Array:
		a := make(Array, len(v))
		for i := range v {
			a[i] = copyVal(v[i])
		}
		return a
	case Struct:
		a := make(Struct, len(v))
		for i := range v {
			a[i] = copyVal(v[i])
		}
		return a
	case Tuple:
		a := make(Tuple, len(v))
		copy(a, v)
		return a
	}
	return v
}

// ---- type helpers --------------------------------------------------------

func under(t types.Type) types.Type { return t.Underlying() }

func deref(t types.Type) types.Type {
	if p, ok := under(t).(*types.Pointer); ok {
		return p.Elem()
	}
	panic("deref of non-pointer " + t.String())
}

// intWidth returns (width, signed) for integer/bool basic types; width 0 for bool.
func basicInfo(t types.Type) (w int, signed bool, ok bool) {
	b, isB := under(t).(*types.Basic)
	if !isB {
		if tp, isTP := t.(*types.TypeParam); isTP {
			_ = tp
		}
		return 0, false, false
	}
	switch b.Kind() {
	case types.Bool, types.UntypedBool:
		return 0, false, true
	case types.Int8:
		return 8, true, true
	case types.Int16:
		return 16, true, true
	case types.Int32, types.UntypedRune:
		return 32, true, true
	case types.Int, types.Int64, types.UntypedInt:
		return 64, true, true
	case types.Uint8:
		return 8, false, true
	case types.Uint16:
		return 16, false, true
	case types.Uint32:
		return 32, false, true
	case types.Uint, types.Uint64, types.Uintptr:
		return 64, false, true
	}
	return 0, false, false
}

func isString(t types.Type) bool {
	b, ok := under(t).(*types.Basic)
	return ok && b.Info()&types.IsString != 0
}

func isFloat(t types.Type) bool {
	b, ok := under(t).(*types.Basic)
	return ok && b.Info()&types.IsFloat != 0
}

func isInterface(t types.Type) bool {
	_, ok := under(t).(*types.Interface)
	return ok
}

// zero returns the zero value of t.
func (m *Machine) zero(t types.Type) Value {
	switch t := t.(type) {
	case *types.Named, *types.Alias:
		return m.zero(t.Underlying())
	case *types.Basic:
		if t.Kind() == types.UnsafePointer {
			return (*Value)(nil)
		}
		if w, _, ok := basicInfo(t); ok {
			return m.tb.Const(0, w)
		}
		if isString(t) {
			return &Str{}
		}
		if isFloat(t) {
			return Float{0}
		}
		if t.Kind() == types.UntypedNil {
			return nil
		}
		panic(unsupported("zero of basic type " + t.String()))
	case *types.Pointer:
		return (*Value)(nil)
	case *types.Slice:
		return Slice{}
	case *types.Array:
		a := make(Array, t.Len())
		for i := range a {
			a[i] = m.zero(t.Elem())
		}
		return a
	case *types.Struct:
		s := make(Struct, t.NumFields())
		for i := range s {
			s[i] = m.zero(t.Field(i).Type())
		}
		return s
	case *types.Map:
		return (*Map)(nil)
	case *types.Interface:
		return Iface{}
	case *types.Signature:
		return (*ssa.Function)(nil)
	case *types.Chan:
		return nil
	case *types.Tuple:
		if t.Len() == 1 {
			return m.zero(t.At(0).Type())
		}
		tu := make(Tuple, t.Len())
		for i := range tu {
			tu[i] = m.zero(t.At(i).Type())
		}
		return tu
	}
	panic(unsupported("zero of type " + t.String()))
}

type unsupportedErr struct{ msg string }

func unsupported(msg string) unsupportedErr { return unsupportedErr{msg} }

// goPanic is a Go-level panic raised by interpreted code.
type goPanic struct {
	v   Value
	msg string
}

func describe(v Value) string {
	switch v := v.(type) {
	case nil:
		return "nil"
	case *Term:
		return v.String()
	case *Str:
		return fmt.Sprintf("%q", v.String())
	case Slice:
		if v.blob != nil {
			return "blob(" + v.blob.kind + ")"
		}
		if v.IsNil() {
			return "[]nil"
		}
		var parts []string
		for _, e := range v.v {
			parts = append(parts, describe(e))
		}
		return "[" + strings.Join(parts, " ") + "]"
	case Struct:
		var parts []string
		for _, e := range v {
			parts = append(parts, describe(e))
		}
		return "{" + strings.Join(parts, " ") + "}"
	case Array:
		var parts []string
		for _, e := range v {
			parts = append(parts, describe(e))
		}
		return "[" + strings.Join(parts, " ") + "]"
	case Iface:
		if v.t == nil {
			return "nil-iface"
		}
		return "iface(" + v.t.String() + ":" + describe(v.v) + ")"
	case *Value:
		if v == nil {
			return "nil-ptr"
		}
		return "&" + describe(*v)
	}
	return fmt.Sprintf("%T", v)
}
