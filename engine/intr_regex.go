package main

// regexp: the pattern is concrete on every path; it is parsed and compiled by the real
// regexp/syntax package and the resulting Pike-VM program is simulated over the symbolic
// subject (position x state booleans), so that matching is exact for every subject of the
// path's concrete length.

import (
	"fmt"
	"regexp"
	"regexp/syntax"
	"unicode"

	"golang.org/x/tools/go/ssa"
)

type RegexpObj struct {
	pattern string
	prog    *syntax.Prog
}

func (r *RegexpObj) HasMethod(n string) bool { return n == "MatchString" || n == "String" }
func (r *RegexpObj) Invoke(m *Machine, method string, args []Value) Value {
	switch method {
	case "MatchString":
		return m.regexMatch(r, m.strArg(args[0]).b)
	case "String":
		return m.mkStr(r.pattern)
	}
	panic(unsupported("regexp method " + method))
}

func compileRegexp(pattern string) (*RegexpObj, error) {
	re, err := syntax.Parse(pattern, syntax.Perl)
	if err != nil {
		return nil, err
	}
	prog, err := syntax.Compile(re.Simplify())
	if err != nil {
		return nil, err
	}
	return &RegexpObj{pattern: pattern, prog: prog}, nil
}

// runeMatch: condition under which instruction i matches byte c (ASCII subject).
func (m *Machine) runeMatch(i *syntax.Inst, c *Term) *Term {
	tb := m.tb
	in := func(lo, hi rune) *Term {
		if lo > 0x7f {
			return tb.Bool(false)
		}
		if hi > 0x7f {
			hi = 0x7f
		}
		if lo == hi {
			return tb.Eq(c, tb.Const(uint64(lo), 8))
		}
		return tb.And(tb.Ule(tb.Const(uint64(lo), 8), c), tb.Ule(c, tb.Const(uint64(hi), 8)))
	}
	switch i.Op {
	case syntax.InstRuneAny:
		return tb.Bool(true)
	case syntax.InstRuneAnyNotNL:
		return tb.Not(tb.Eq(c, tb.Const('\n', 8)))
	case syntax.InstRune1:
		r := i.Rune[0]
		res := in(r, r)
		if syntax.Flags(i.Arg)&syntax.FoldCase != 0 {
			for r1 := unicode.SimpleFold(r); r1 != r; r1 = unicode.SimpleFold(r1) {
				res = tb.Or(res, in(r1, r1))
			}
		}
		return res
	case syntax.InstRune:
		rs := i.Rune
		if len(rs) == 1 {
			r := rs[0]
			res := in(r, r)
			if syntax.Flags(i.Arg)&syntax.FoldCase != 0 {
				for r1 := unicode.SimpleFold(r); r1 != r; r1 = unicode.SimpleFold(r1) {
					res = tb.Or(res, in(r1, r1))
				}
			}
			return res
		}
		var alts []*Term
		for k := 0; k+1 < len(rs); k += 2 {
			alts = append(alts, in(rs[k], rs[k+1]))
		}
		return tb.Or(alts...)
	}
	panic("runeMatch: not a rune instruction")
}

// regexMatch builds the term "pattern matches somewhere in subject" (regexp.MatchString semantics).
func (m *Machine) regexMatch(r *RegexpObj, subj []*Term) *Term {
	tb := m.tb
	for _, c := range subj {
		if !c.IsConst() {
			if !m.decide(tb.Ult(c, tb.Const(0x80, 8))) {
				panic(unsupported("regexp match on a symbolic non-ASCII byte"))
			}
		} else if c.U64() >= 0x80 {
			panic(unsupported("regexp match on a non-ASCII subject"))
		}
	}
	prog := r.prog
	n := len(subj)
	matched := tb.Bool(false)
	// alive[pc] for the current position, after epsilon closure
	cur := make([]*Term, len(prog.Inst))
	for i := range cur {
		cur[i] = tb.Bool(false)
	}
	// addThread performs the epsilon closure from pc with condition cond at position pos.
	var add func(set []*Term, pc int, cond *Term, pos int, depth int)
	add = func(set []*Term, pc int, cond *Term, pos int, depth int) {
		if cond.False() || depth > 10000 {
			return
		}
		inst := &prog.Inst[pc]
		switch inst.Op {
		case syntax.InstFail:
			return
		case syntax.InstAlt, syntax.InstAltMatch:
			// avoid infinite epsilon loops: a state already implied by cond adds nothing new
			if impliesSyntactic(tb, set[pc], cond) {
				return
			}
			set[pc] = tb.Or(set[pc], cond)
			add(set, int(inst.Out), cond, pos, depth+1)
			add(set, int(inst.Arg), cond, pos, depth+1)
		case syntax.InstNop, syntax.InstCapture:
			if impliesSyntactic(tb, set[pc], cond) {
				return
			}
			set[pc] = tb.Or(set[pc], cond)
			add(set, int(inst.Out), cond, pos, depth+1)
		case syntax.InstEmptyWidth:
			if impliesSyntactic(tb, set[pc], cond) {
				return
			}
			set[pc] = tb.Or(set[pc], cond)
			ok := m.emptyWidthOK(syntax.EmptyOp(inst.Arg), subj, pos)
			add(set, int(inst.Out), tb.And(cond, ok), pos, depth+1)
		default: // rune instructions and match
			set[pc] = tb.Or(set[pc], cond)
		}
	}
	for pos := 0; pos <= n; pos++ {
		// unanchored search: a new thread may start at every position
		add(cur, prog.Start, tb.Bool(true), pos, 0)
		next := make([]*Term, len(prog.Inst))
		for i := range next {
			next[i] = tb.Bool(false)
		}
		for pc := range prog.Inst {
			if cur[pc].False() {
				continue
			}
			inst := &prog.Inst[pc]
			switch inst.Op {
			case syntax.InstMatch:
				matched = tb.Or(matched, cur[pc])
			case syntax.InstRune, syntax.InstRune1, syntax.InstRuneAny, syntax.InstRuneAnyNotNL:
				if pos < n {
					add(next, int(inst.Out), tb.And(cur[pc], m.runeMatch(inst, subj[pos])), pos+1, 0)
				}
			}
		}
		cur = next
	}
	return matched
}

// impliesSyntactic: cheap test that "have" already covers "cond" (used to cut epsilon cycles).
func impliesSyntactic(tb *TB, have, cond *Term) bool {
	if have.True() {
		return true
	}
	if have == cond {
		return true
	}
	if have.op == OpOr {
		for _, a := range have.args {
			if a == cond {
				return true
			}
		}
	}
	return false
}

func (m *Machine) emptyWidthOK(op syntax.EmptyOp, subj []*Term, pos int) *Term {
	tb := m.tb
	n := len(subj)
	res := tb.Bool(true)
	isWord := func(c *Term) *Term {
		return tb.Or(
			tb.And(tb.Ule(tb.Const('a', 8), c), tb.Ule(c, tb.Const('z', 8))),
			tb.And(tb.Ule(tb.Const('A', 8), c), tb.Ule(c, tb.Const('Z', 8))),
			tb.And(tb.Ule(tb.Const('0', 8), c), tb.Ule(c, tb.Const('9', 8))),
			tb.Eq(c, tb.Const('_', 8)))
	}
	if op&syntax.EmptyBeginText != 0 {
		res = tb.And(res, tb.Bool(pos == 0))
	}
	if op&syntax.EmptyEndText != 0 {
		res = tb.And(res, tb.Bool(pos == n))
	}
	if op&syntax.EmptyBeginLine != 0 {
		if pos > 0 {
			res = tb.And(res, tb.Eq(subj[pos-1], tb.Const('\n', 8)))
		}
	}
	if op&syntax.EmptyEndLine != 0 {
		if pos < n {
			res = tb.And(res, tb.Eq(subj[pos], tb.Const('\n', 8)))
		}
	}
	if op&(syntax.EmptyWordBoundary|syntax.EmptyNoWordBoundary) != 0 {
		before, after := tb.Bool(false), tb.Bool(false)
		if pos > 0 {
			before = isWord(subj[pos-1])
		}
		if pos < n {
			after = isWord(subj[pos])
		}
		b := tb.Not(tb.Eq(before, after))
		if op&syntax.EmptyWordBoundary != 0 {
			res = tb.And(res, b)
		}
		if op&syntax.EmptyNoWordBoundary != 0 {
			res = tb.And(res, tb.Not(b))
		}
	}
	return res
}

func registerRegexp(p *Program) {
	I := p.intrinsics
	I["regexp.MustCompile"] = func(m *Machine, fr *Frame, fn *ssa.Function, a []Value) Value {
		s := m.strArg(a[0])
		if !s.IsConcrete() {
			panic(unsupported("regexp.MustCompile with a symbolic pattern"))
		}
		r, err := compileRegexp(s.Concrete())
		if err != nil {
			panic(&goPanic{msg: "regexp: Compile: " + err.Error()})
		}
		return r
	}
	I["regexp.QuoteMeta"] = func(m *Machine, fr *Frame, fn *ssa.Function, a []Value) Value {
		s := m.strArg(a[0])
		if !s.IsConcrete() {
			panic(unsupported("regexp.QuoteMeta of a symbolic string"))
		}
		return m.mkStr(regexp.QuoteMeta(s.Concrete()))
	}
	I["regexp.Compile"] = func(m *Machine, fr *Frame, fn *ssa.Function, a []Value) Value {
		s := m.strArg(a[0])
		if !s.IsConcrete() {
			panic(unsupported("regexp.Compile with a symbolic pattern"))
		}
		r, err := compileRegexp(s.Concrete())
		if err != nil {
			return Tuple{(*RegexpObj)(nil), m.errIface(&ErrObj{kind: "new", msg: err.Error()})}
		}
		return Tuple{r, Iface{}}
	}
	I["(*regexp.Regexp).MatchString"] = func(m *Machine, fr *Frame, fn *ssa.Function, a []Value) Value {
		return a[0].(*RegexpObj).Invoke(m, "MatchString", a[1:])
	}
	I["regexp.MatchString"] = func(m *Machine, fr *Frame, fn *ssa.Function, a []Value) Value {
		pat := m.strArg(a[0])
		if !pat.IsConcrete() {
			panic(unsupported(fmt.Sprintf("regexp.MatchString with a symbolic pattern %q", pat.String())))
		}
		r, err := compileRegexp(pat.Concrete())
		if err != nil {
			return Tuple{m.tb.Bool(false), m.errIface(&ErrObj{kind: "new", msg: err.Error()})}
		}
		return Tuple{m.regexMatch(r, m.strArg(a[1]).b), Iface{}}
	}
}
