package main

import (
	"os"
	"golang.org/x/tools/go/ssa"
)

func registerExtra(p *Program) {
	registerRegexp(p)
	registerCodec(p)
	registerBig(p)
	registerApps(p)
	registerHash(p)
	registerProtoCodec(p)
	I := p.intrinsics
	storeData := func(m *Machine, ctxv Value, name string) *StoreData {
		c, ok := ctxv.(*SymCtx)
		if !ok {
			panic(unsupported("vp store observer on a foreign context"))
		}
		d := c.stores[name]
		if d == nil {
			d = &StoreData{name: name}
			c.stores[name] = d
		}
		return d
	}
	I[vpPath+"And"] = func(m *Machine, fr *Frame, fn *ssa.Function, a []Value) Value {
		var ts []*Term
		for _, v := range a[0].(Slice).v {
			ts = append(ts, v.(*Term))
		}
		return m.tb.And(ts...)
	}
	I[vpPath+"Or"] = func(m *Machine, fr *Frame, fn *ssa.Function, a []Value) Value {
		var ts []*Term
		for _, v := range a[0].(Slice).v {
			ts = append(ts, v.(*Term))
		}
		return m.tb.Or(ts...)
	}
	I[vpPath+"Implies"] = func(m *Machine, fr *Frame, fn *ssa.Function, a []Value) Value {
		return m.tb.Implies(a[0].(*Term), a[1].(*Term))
	}
	I[vpPath+"BytesEq"] = func(m *Machine, fr *Frame, fn *ssa.Function, a []Value) Value {
		return m.bytesEq(m.bytesArg(a[0]), m.bytesArg(a[1]))
	}
	I[vpPath+"IteU64"] = func(m *Machine, fr *Frame, fn *ssa.Function, a []Value) Value {
		return m.tb.Ite(a[0].(*Term), a[1].(*Term), a[2].(*Term))
	}
	I[vpPath+"HasKey"] = func(m *Machine, fr *Frame, fn *ssa.Function, a []Value) Value {
		d := storeData(m, a[0], cstr(a[1]))
		key := m.bytesArg(a[2])
		present := m.tb.Bool(false)
		for _, w := range d.writes {
			if len(w.key) != len(key) {
				continue
			}
			present = m.tb.Ite(m.matchWrite(w, key), m.tb.Bool(w.val != nil), present)
		}
		return present
	}
	I[vpPath+"Bound"] = func(m *Machine, fr *Frame, fn *ssa.Function, a []Value) Value {
		if os.Getenv("VERIF_TIER") == "thorough" {
			return a[1]
		}
		return a[0]
	}
	I[vpPath+"SetIf"] = func(m *Machine, fr *Frame, fn *ssa.Function, a []Value) Value {
		c := a[0].(*Term)
		if c.False() {
			return nil
		}
		if !c.True() {
			m.guards = append(m.guards, c)
			defer func() { m.guards = m.guards[:len(m.guards)-1] }()
		}
		m.call(fr, a[1], nil)
		return nil
	}
	I[vpPath+"BytesLess"] = func(m *Machine, fr *Frame, fn *ssa.Function, a []Value) Value {
		return m.bytesLess(m.bytesArg(a[0]), m.bytesArg(a[1]), false)
	}
	I[vpPath+"StoreMark"] = func(m *Machine, fr *Frame, fn *ssa.Function, a []Value) Value {
		return m.tb.ConstI(int64(len(storeData(m, a[0], cstr(a[1])).writes)), 64)
	}
	I[vpPath+"WrittenKey"] = func(m *Machine, fr *Frame, fn *ssa.Function, a []Value) Value {
		d := storeData(m, a[0], cstr(a[1]))
		i := m.concreteInt(a[2], "write index")
		return m.mkBytes(d.writes[i].key)
	}
	I[vpPath+"WrittenIsDelete"] = func(m *Machine, fr *Frame, fn *ssa.Function, a []Value) Value {
		d := storeData(m, a[0], cstr(a[1]))
		i := m.concreteInt(a[2], "write index")
		return m.tb.Bool(d.writes[i].val == nil)
	}
}
