package main

func registerExtra(p *Program) {}
