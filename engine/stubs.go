package main

// Dependency stubs by source overlay: harness/<group>/stubs.json lists functions of third-party
// packages whose body gets one injected statement (a call into package oracle). The patched
// file replaces the original in the go/packages overlay (symbolic executor) and in the
// "go test -overlay" build of the native replay, so both worlds run the same stub.

import (
	"crypto/sha1"
	"encoding/json"
	"fmt"
	"os"
	"os/exec"
	"path/filepath"
	"strings"
)

type stubSpec struct {
	Pkg    string `json:"pkg"`
	File   string `json:"file"`
	Func   string `json:"func"`   // text the function declaration starts with, e.g. "func Verify("
	Inject string `json:"inject"` // statement(s) inserted at the top of the body
}

const oracleImport = "\toracle \"github.com/bianjieai/tibc-go/zzverif/oracle\"\n"

func loadStubs(verifDir, group string) ([]stubSpec, error) {
	b, err := os.ReadFile(filepath.Join(verifDir, "harness", group, "stubs.json"))
	if err != nil {
		if os.IsNotExist(err) {
			return nil, nil
		}
		return nil, err
	}
	var specs []stubSpec
	if err := json.Unmarshal(b, &specs); err != nil {
		return nil, err
	}
	return specs, nil
}

func pkgDir(repo, pkg string, env []string) (string, error) {
	cmd := exec.Command("go", "list", "-f", "{{.Dir}}", pkg)
	cmd.Dir = repo
	cmd.Env = env
	out, err := cmd.Output()
	if err != nil {
		return "", fmt.Errorf("go list %s: %v", pkg, err)
	}
	return strings.TrimSpace(string(out)), nil
}

// patchedSources returns original path -> patched content.
func patchedSources(repo, verifDir, group string, env []string) (map[string][]byte, error) {
	specs, err := loadStubs(verifDir, group)
	if err != nil || len(specs) == 0 {
		return nil, err
	}
	out := map[string][]byte{}
	for _, sp := range specs {
		dir := sp.Pkg
		if !filepath.IsAbs(dir) {
			if strings.HasPrefix(sp.Pkg, "./") {
				dir = filepath.Join(repo, sp.Pkg)
			} else {
				dir, err = pkgDir(repo, sp.Pkg, env)
				if err != nil {
					return nil, err
				}
			}
		}
		path := filepath.Join(dir, sp.File)
		src, ok := out[path]
		if !ok {
			src, err = os.ReadFile(path)
			if err != nil {
				return nil, err
			}
		}
		text := string(src)
		i := strings.Index(text, "\n"+sp.Func)
		if i < 0 {
			return nil, fmt.Errorf("stub: %q not found in %s", sp.Func, path)
		}
		// end of the signature: first "{\n" after the declaration start
		j := strings.Index(text[i+1:], "{\n")
		if j < 0 {
			return nil, fmt.Errorf("stub: body of %q not found in %s", sp.Func, path)
		}
		pos := i + 1 + j + 2
		text = text[:pos] + "\t" + sp.Inject + "\n" + text[pos:]
		if !strings.Contains(text, "zzverif/oracle\"") {
			k := strings.Index(text, "import (\n")
			if k < 0 {
				return nil, fmt.Errorf("stub: no import block in %s", path)
			}
			text = text[:k+len("import (\n")] + oracleImport + text[k+len("import (\n"):]
		}
		out[path] = []byte(text)
	}
	return out, nil
}

// emitStubs writes the patched sources to dir and returns the overlay mapping original -> file.
func emitStubs(repo, verifDir, group, dir string, env []string) (map[string]string, error) {
	srcs, err := patchedSources(repo, verifDir, group, env)
	if err != nil {
		return nil, err
	}
	if err := os.MkdirAll(dir, 0o755); err != nil {
		return nil, err
	}
	m := map[string]string{}
	for orig, content := range srcs {
		h := sha1.Sum([]byte(orig))
		f := filepath.Join(dir, fmt.Sprintf("%x_%s", h[:4], filepath.Base(orig)))
		if err := os.WriteFile(f, content, 0o644); err != nil {
			return nil, err
		}
		m[orig] = f
	}
	return m, nil
}
