package main

// SSA interpreter over the symbolic value model. Structure follows
// golang.org/x/tools/go/ssa/interp; values are symbolic (see value.go).

import (
	"fmt"
	"go/constant"
	"go/token"
	"go/types"
	"math/big"
	"strings"

	"golang.org/x/tools/go/ssa"
)

type deferred struct {
	fn    Value
	args  []Value
	instr *ssa.Defer
	tail  *deferred
}

type Frame struct {
	m         *Machine
	caller    *Frame
	fn        *ssa.Function
	block     *ssa.BasicBlock
	prevBlock *ssa.BasicBlock
	env       map[ssa.Value]Value
	defers    *deferred
	result    Value
	panicking bool
	panic     interface{}
	symVisits map[ssa.Instruction]int
}

type continuation int

const (
	kNext continuation = iota
	kReturn
	kJump
)

func (fr *Frame) get(key ssa.Value) Value {
	switch key := key.(type) {
	case nil:
		return nil
	case *ssa.Function:
		return key
	case *ssa.Builtin:
		return key
	case *ssa.Const:
		return fr.m.constValue(key)
	case *ssa.Global:
		return fr.m.global(key)
	}
	if r, ok := fr.env[key]; ok {
		return r
	}
	panic(fmt.Sprintf("get: no value for %T: %v", key, key.Name()))
}

func (m *Machine) constValue(c *ssa.Const) Value {
	t := c.Type()
	if c.Value == nil {
		return m.zero(t)
	}
	if tp, ok := t.(*types.TypeParam); ok {
		t = tp.Underlying()
	}
	if b, ok := under(t).(*types.Basic); ok {
		switch {
		case b.Info()&types.IsBoolean != 0:
			return m.tb.Bool(constant.BoolVal(c.Value))
		case b.Info()&types.IsInteger != 0:
			w, _, _ := basicInfo(t)
			iv := constant.ToInt(c.Value)
			bi, ok := new(big.Int).SetString(iv.ExactString(), 10)
			if !ok {
				panic("bad int const " + iv.ExactString())
			}
			return m.tb.ConstBig(bi, w)
		case b.Info()&types.IsString != 0:
			if c.Value.Kind() == constant.String {
				return m.mkStr(constant.StringVal(c.Value))
			}
			return m.mkStr(string(rune(c.Int64())))
		case b.Info()&types.IsFloat != 0:
			f, _ := constant.Float64Val(constant.ToFloat(c.Value))
			return Float{f}
		}
	}
	panic(unsupported("constant of type " + t.String()))
}

// call dispatches any function value.
func (m *Machine) call(caller *Frame, fn Value, args []Value) Value {
	switch fn := fn.(type) {
	case *ssa.Function:
		if fn == nil {
			panic(&goPanic{msg: "call of nil function"})
		}
		return m.callSSA(caller, fn, args, nil)
	case *Closure:
		return m.callSSA(caller, fn.fn, args, fn.env)
	case *NativeFn:
		return fn.call(m, args)
	case *ssa.Builtin:
		return m.callBuiltin(caller, fn, args)
	}
	panic(fmt.Sprintf("cannot call %T", fn))
}

func (m *Machine) callSSA(caller *Frame, fn *ssa.Function, args []Value, env []Value) Value {
	if in := m.p.intrinsicFor(fn); in != nil {
		return in(m, caller, fn, args)
	}
	if fn.Blocks == nil {
		m.p.ensureBody(fn) // another worker may be building the package right now: wait for it
	}
	if fn.Blocks == nil {
		panic(unsupported("function without body and without intrinsic: " + fn.String()))
	}
	m.depth++
	if m.depth > 400 {
		panic(unsupported("call depth exceeded in " + fn.String()))
	}
	defer func() { m.depth-- }()
	if m.p.trace {
		fmt.Fprintf(m.p.traceW, "%s> %s\n", strings.Repeat(" ", m.depth), fn.String())
	}
	saveFn := m.curFn
	m.curFn = fn.String()
	defer func() { m.curFn = saveFn }()
	fr := &Frame{m: m, caller: caller, fn: fn, env: make(map[ssa.Value]Value, 16)}
	for i, p := range fn.Params {
		fr.env[p] = args[i]
	}
	for i, fv := range fn.FreeVars {
		fr.env[fv] = env[i]
	}
	fr.block = fn.Blocks[0]
	for fr.block != nil {
		m.runFrame(fr)
	}
	return fr.result
}

func (m *Machine) runFrame(fr *Frame) {
	defer func() {
		if fr.block == nil {
			return // normal return
		}
		r := recover()
		gp, ok := r.(*goPanic)
		if !ok {
			panic(r) // engine signal or bug: propagate unchanged
		}
		fr.panicking = true
		fr.panic = gp
		fr.runDefers()
		fr.block = fr.fn.Recover
		if fr.block == nil {
			fr.result = m.zero(fr.fn.Signature.Results())
			if fr.fn.Signature.Results().Len() == 0 {
				fr.result = nil
			}
		}
	}()
	for {
		if m.p.trace {
			fmt.Fprintf(m.p.traceW, "%s.%d:\n", strings.Repeat(" ", m.depth), fr.block.Index)
		}
	block:
		for _, instr := range fr.block.Instrs {
			m.steps++
			if m.steps > m.p.maxSteps {
				panic(unsupported(fmt.Sprintf("step budget exceeded (%d) in %s", m.p.maxSteps, fr.fn)))
			}
			switch m.visitInstr(fr, instr) {
			case kReturn:
				return
			case kNext:
			case kJump:
				break block
			}
		}
	}
}

func (fr *Frame) runDefers() {
	for d := fr.defers; d != nil; d = d.tail {
		fr.runDefer(d)
	}
	fr.defers = nil
	if fr.panicking {
		panic(fr.panic)
	}
}

func (fr *Frame) runDefer(d *deferred) {
	var ok bool
	defer func() {
		if !ok {
			r := recover()
			if gp, isGo := r.(*goPanic); isGo {
				fr.panicking = true
				fr.panic = gp
			} else {
				panic(r)
			}
		}
	}()
	fr.m.call(fr, d.fn, d.args)
	ok = true
}

func (m *Machine) prepareCall(fr *Frame, call *ssa.CallCommon) (fn Value, args []Value) {
	v := fr.get(call.Value)
	if call.Method == nil {
		fn = v
	} else {
		recv := v.(Iface)
		if recv.t == nil {
			panic(&goPanic{msg: "method value: interface conversion: interface is nil"})
		}
		if nat, ok := recv.v.(Native); ok {
			name := call.Method.Name()
			var nargs []Value
			for _, a := range call.Args {
				nargs = append(nargs, fr.get(a))
			}
			return &NativeFn{name: name, call: func(m *Machine, as []Value) Value { return nat.Invoke(m, name, as) }}, nargs
		}
		f := m.p.lookupMethod(recv.t, call.Method)
		if f == nil {
			panic(unsupported(fmt.Sprintf("method %s not found on %s", call.Method.Name(), recv.t)))
		}
		fn = f
		args = append(args, recv.v)
	}
	for _, a := range call.Args {
		args = append(args, fr.get(a))
	}
	return
}

func (m *Machine) visitInstr(fr *Frame, instr ssa.Instruction) continuation {
	if m.p.trace {
		if v, ok := instr.(ssa.Value); ok {
			fmt.Fprintf(m.p.traceW, "%s  %s = %s\n", strings.Repeat(" ", m.depth), v.Name(), instr)
		} else {
			fmt.Fprintf(m.p.traceW, "%s  %s\n", strings.Repeat(" ", m.depth), instr)
		}
	}
	switch instr := instr.(type) {
	case *ssa.DebugRef:
	case *ssa.UnOp:
		fr.env[instr] = m.unop(instr, fr.get(instr.X))
	case *ssa.BinOp:
		fr.env[instr] = m.binop(instr.Op, instr.X.Type(), fr.get(instr.X), fr.get(instr.Y), instr.Y.Type())
	case *ssa.Call:
		fn, args := m.prepareCall(fr, &instr.Call)
		fr.env[instr] = m.call(fr, fn, args)
	case *ssa.ChangeInterface:
		fr.env[instr] = fr.get(instr.X)
	case *ssa.ChangeType:
		fr.env[instr] = fr.get(instr.X)
	case *ssa.Convert:
		fr.env[instr] = m.conv(instr.Type(), instr.X.Type(), fr.get(instr.X))
	case *ssa.MultiConvert:
		fr.env[instr] = m.conv(instr.Type(), instr.X.Type(), fr.get(instr.X))
	case *ssa.SliceToArrayPointer:
		sl := fr.get(instr.X).(Slice)
		n := int(under(deref(instr.Type())).(*types.Array).Len())
		if len(sl.v) < n {
			panic(&goPanic{msg: "slice to array pointer: length too short"})
		}
		if sl.v == nil {
			fr.env[instr] = (*Value)(nil)
		} else {
			// aliasing with the slice is lost; sufficient for read-only uses
			arr := make(Array, n)
			copy(arr, sl.v[:n])
			var cell Value = arr
			fr.env[instr] = &cell
		}
	case *ssa.MakeInterface:
		fr.env[instr] = Iface{t: instr.X.Type(), v: fr.get(instr.X)}
	case *ssa.Extract:
		fr.env[instr] = fr.get(instr.Tuple).(Tuple)[instr.Index]
	case *ssa.Slice:
		fr.env[instr] = m.sliceOp(fr, instr)
	case *ssa.Return:
		switch len(instr.Results) {
		case 0:
		case 1:
			fr.result = fr.get(instr.Results[0])
		default:
			var res Tuple
			for _, r := range instr.Results {
				res = append(res, fr.get(r))
			}
			fr.result = res
		}
		fr.block = nil
		return kReturn
	case *ssa.RunDefers:
		fr.runDefers()
	case *ssa.Panic:
		v := fr.get(instr.X)
		panic(&goPanic{v: v, msg: m.panicMsg(v)})
	case *ssa.Send:
		panic(unsupported("channel send"))
	case *ssa.Store:
		p := fr.get(instr.Addr).(*Value)
		if p == nil {
			panic(&goPanic{msg: "nil pointer dereference (store)"})
		}
		*p = copyVal(fr.get(instr.Val))
	case *ssa.If:
		c := fr.get(instr.Cond).(*Term)
		succ := 1
		if m.decideAt(fr, instr, c) {
			succ = 0
		}
		fr.prevBlock, fr.block = fr.block, fr.block.Succs[succ]
		return kJump
	case *ssa.Jump:
		fr.prevBlock, fr.block = fr.block, fr.block.Succs[0]
		return kJump
	case *ssa.Defer:
		fn, args := m.prepareCall(fr, &instr.Call)
		fr.defers = &deferred{fn: fn, args: args, instr: instr, tail: fr.defers}
	case *ssa.Go:
		panic(unsupported("go statement"))
	case *ssa.MakeChan:
		panic(unsupported("make chan"))
	case *ssa.Alloc:
		v := m.zero(deref(instr.Type()))
		fr.env[instr] = &v
	case *ssa.MakeSlice:
		n := m.concreteInt(fr.get(instr.Len), "make slice len")
		c := m.concreteInt(fr.get(instr.Cap), "make slice cap")
		if n < 0 || c < n || c > 1<<20 {
			panic(&goPanic{msg: "makeslice: len out of range"})
		}
		sl := make([]Value, n, c)
		et := under(instr.Type()).(*types.Slice).Elem()
		full := sl[:c]
		for i := range full {
			full[i] = m.zero(et)
		}
		fr.env[instr] = Slice{v: sl}
	case *ssa.MakeMap:
		fr.env[instr] = &Map{kt: under(instr.Type()).(*types.Map).Key()}
	case *ssa.Range:
		fr.env[instr] = m.rangeIter(fr.get(instr.X), instr.X.Type())
	case *ssa.Next:
		fr.env[instr] = fr.get(instr.Iter).(iter).next(m)
	case *ssa.FieldAddr:
		p := fr.get(instr.X).(*Value)
		if p == nil {
			panic(&goPanic{msg: "nil pointer dereference (field address)"})
		}
		st, ok := (*p).(Struct)
		if !ok {
			panic(unsupported(fmt.Sprintf("field address into native object %T (%s)", *p, instr.X.Type())))
		}
		fr.env[instr] = &st[instr.Field]
	case *ssa.Field:
		st, ok := fr.get(instr.X).(Struct)
		if !ok {
			panic(unsupported(fmt.Sprintf("field of native object %T (%s)", fr.get(instr.X), instr.X.Type())))
		}
		fr.env[instr] = st[instr.Field]
	case *ssa.IndexAddr:
		x := fr.get(instr.X)
		switch x := x.(type) {
		case Slice:
			idx := m.concreteIndex(fr.get(instr.Index), len(x.v))
			fr.env[instr] = &x.v[idx]
		case *Value:
			if x == nil {
				panic(&goPanic{msg: "nil pointer dereference (index address)"})
			}
			arr := (*x).(Array)
			idx := m.concreteIndex(fr.get(instr.Index), len(arr))
			fr.env[instr] = &arr[idx]
		default:
			panic(fmt.Sprintf("IndexAddr on %T", x))
		}
	case *ssa.Index:
		x := fr.get(instr.X)
		switch x := x.(type) {
		case Array:
			idx := m.concreteIndex(fr.get(instr.Index), len(x))
			fr.env[instr] = x[idx]
		case *Str:
			m.checkTaint(x)
			idx := m.concreteIndex(fr.get(instr.Index), len(x.b))
			fr.env[instr] = x.b[idx]
		default:
			panic(fmt.Sprintf("Index on %T", x))
		}
	case *ssa.Lookup:
		fr.env[instr] = m.lookup(instr, fr.get(instr.X), fr.get(instr.Index))
	case *ssa.MapUpdate:
		mp := fr.get(instr.Map).(*Map)
		if mp == nil {
			panic(&goPanic{msg: "assignment to entry in nil map"})
		}
		m.mapSet(mp, fr.get(instr.Key), copyVal(fr.get(instr.Value)))
	case *ssa.TypeAssert:
		fr.env[instr] = m.typeAssert(instr, fr.get(instr.X).(Iface))
	case *ssa.MakeClosure:
		var bindings []Value
		for _, b := range instr.Bindings {
			bindings = append(bindings, fr.get(b))
		}
		fr.env[instr] = &Closure{fn: instr.Fn.(*ssa.Function), env: bindings}
	case *ssa.Phi:
		for i, pred := range instr.Block().Preds {
			if fr.prevBlock == pred {
				fr.env[instr] = fr.get(instr.Edges[i])
				break
			}
		}
	case *ssa.Select:
		panic(unsupported("select"))
	default:
		panic(fmt.Sprintf("unexpected instruction: %T", instr))
	}
	return kNext
}

func (m *Machine) panicMsg(v Value) string {
	switch v := v.(type) {
	case Iface:
		if v.t == nil {
			return "panic(nil)"
		}
		if s, ok := v.v.(*Str); ok {
			return "panic: " + s.String()
		}
		if e, ok := v.v.(*ErrObj); ok {
			return "panic: " + e.describe()
		}
		return "panic: value of type " + v.t.String()
	}
	return "panic"
}

// concreteInt requires a concrete integer (sizes, capacities).
func (m *Machine) concreteInt(v Value, what string) int {
	t := v.(*Term)
	if !t.IsConst() {
		panic(unsupported("symbolic " + what))
	}
	return int(t.I64())
}

// concreteIndex returns a concrete index into a sequence of length n; a symbolic
// index is concretised by forking over the feasible positions. Out of range panics.
func (m *Machine) concreteIndex(v Value, n int) int {
	t := v.(*Term)
	if t.IsConst() {
		i := t.I64()
		if i < 0 || i >= int64(n) {
			panic(&goPanic{msg: fmt.Sprintf("index out of range [%d] with length %d", i, n)})
		}
		return int(i)
	}
	for i := 0; i < n; i++ {
		if m.decide(m.tb.Eq(t, m.tb.ConstI(int64(i), t.W))) {
			return i
		}
	}
	panic(&goPanic{msg: fmt.Sprintf("index out of range [symbolic] with length %d", n)})
}

func (m *Machine) checkTaint(s *Str) {
	if s.tainted {
		panic(unsupported("inspection of an opaque (formatted) string"))
	}
}

func (m *Machine) sliceOp(fr *Frame, instr *ssa.Slice) Value {
	x := fr.get(instr.X)
	lo, hi, max := -1, -1, -1
	if instr.Low != nil {
		lo = m.concreteBound(fr.get(instr.Low))
	}
	if instr.High != nil {
		hi = m.concreteBound(fr.get(instr.High))
	}
	if instr.Max != nil {
		max = m.concreteBound(fr.get(instr.Max))
	}
	if lo < 0 {
		lo = 0
	}
	switch x := x.(type) {
	case *Str:
		m.checkTaint(x)
		if hi < 0 {
			hi = len(x.b)
		}
		if lo > hi || hi > len(x.b) {
			panic(&goPanic{msg: fmt.Sprintf("slice bounds out of range [%d:%d] with length %d", lo, hi, len(x.b))})
		}
		return &Str{b: x.b[lo:hi]}
	case Slice:
		if x.blob != nil {
			if lo == 0 && hi < 0 {
				return x
			}
			panic(unsupported("slicing an opaque marshalled blob"))
		}
		if hi < 0 {
			hi = len(x.v)
		}
		if max < 0 {
			max = cap(x.v)
		}
		if lo > hi || hi > max || max > cap(x.v) {
			panic(&goPanic{msg: fmt.Sprintf("slice bounds out of range [%d:%d:%d] with capacity %d", lo, hi, max, cap(x.v))})
		}
		if x.v == nil {
			return Slice{}
		}
		return Slice{v: x.v[lo:hi:max]}
	case *Value:
		if x == nil {
			panic(&goPanic{msg: "nil pointer dereference (slice of array)"})
		}
		arr := (*x).(Array)
		if hi < 0 {
			hi = len(arr)
		}
		if max < 0 {
			max = len(arr)
		}
		if lo > hi || hi > max || max > len(arr) {
			panic(&goPanic{msg: "slice bounds out of range"})
		}
		return Slice{v: []Value(arr)[lo:hi:max]}
	}
	panic(fmt.Sprintf("slice of %T", x))
}

func (m *Machine) concreteBound(v Value) int {
	t := v.(*Term)
	if !t.IsConst() {
		panic(unsupported("symbolic slice bound"))
	}
	i := t.I64()
	if i < 0 {
		panic(&goPanic{msg: "slice bounds out of range (negative)"})
	}
	return int(i)
}

func (m *Machine) typeAssert(instr *ssa.TypeAssert, itf Iface) Value {
	var v Value
	ok := false
	if idst, isI := under(instr.AssertedType).(*types.Interface); isI {
		if itf.t != nil && m.implements(itf, idst) {
			v = itf
			ok = true
		}
	} else if itf.t != nil && types.Identical(itf.t, instr.AssertedType) {
		v = itf.v
		ok = true
	}
	if instr.CommaOk {
		if !ok {
			v = m.zero(instr.AssertedType)
		}
		return Tuple{v, m.tb.Bool(ok)}
	}
	if !ok {
		src := "nil"
		if itf.t != nil {
			src = itf.t.String()
		}
		panic(&goPanic{msg: fmt.Sprintf("interface conversion: interface is %s, not %s", src, instr.AssertedType)})
	}
	return v
}

func (m *Machine) implements(itf Iface, idst *types.Interface) bool {
	if nat, ok := itf.v.(interface{ HasMethod(string) bool }); ok {
		for i := 0; i < idst.NumMethods(); i++ {
			if !nat.HasMethod(idst.Method(i).Name()) {
				return false
			}
		}
		return true
	}
	return types.Implements(itf.t, idst)
}

// ---- range / iterators ---------------------------------------------------

type iter interface {
	next(m *Machine) Tuple
}

type strIter struct {
	s *Str
	i int
}

func (it *strIter) next(m *Machine) Tuple {
	if it.i >= len(it.s.b) {
		return Tuple{m.tb.Bool(false), m.tb.Const(0, 64), m.tb.Const(0, 32)}
	}
	b := it.s.b[it.i]
	// only single-byte (ASCII) runes are supported for symbolic bytes
	if !b.IsConst() {
		if !m.decide(m.tb.Ult(b, m.tb.Const(0x80, 8))) {
			panic(unsupported("range over string with a symbolic non-ASCII byte"))
		}
		idx := it.i
		it.i++
		return Tuple{m.tb.Bool(true), m.tb.ConstI(int64(idx), 64), m.tb.Zext(b, 32)}
	}
	// concrete prefix: decode with Go
	j := it.i
	for j < len(it.s.b) && it.s.b[j].IsConst() && j < it.i+4 {
		j++
	}
	bs := make([]byte, j-it.i)
	for k := range bs {
		bs[k] = byte(it.s.b[it.i+k].U64())
	}
	r, size := decodeRune(bs)
	idx := it.i
	it.i += size
	return Tuple{m.tb.Bool(true), m.tb.ConstI(int64(idx), 64), m.tb.ConstI(int64(r), 32)}
}

func decodeRune(bs []byte) (rune, int) {
	for i, r := range string(bs) {
		_ = i
		n := len(string(r))
		if r == 0xFFFD {
			n = 1
		}
		return r, n
	}
	return 0xFFFD, 1
}

type mapIter struct {
	keys, vals []Value
	i          int
}

func (it *mapIter) next(m *Machine) Tuple {
	if it.i >= len(it.keys) {
		return Tuple{m.tb.Bool(false), nil, nil}
	}
	k, v := it.keys[it.i], it.vals[it.i]
	it.i++
	return Tuple{m.tb.Bool(true), k, copyVal(v)}
}

func (m *Machine) rangeIter(x Value, t types.Type) iter {
	switch x := x.(type) {
	case *Str:
		m.checkTaint(x)
		return &strIter{s: x}
	case *Map:
		if x == nil {
			return &mapIter{}
		}
		keys := append([]Value(nil), x.keys...)
		vals := append([]Value(nil), x.vals...)
		m.permuteMapOrder(keys, vals)
		return &mapIter{keys: keys, vals: vals}
	}
	panic(unsupported(fmt.Sprintf("range over %T", x)))
}

// ---- maps ----------------------------------------------------------------

func (m *Machine) mapFind(mp *Map, key Value) int {
	if mp == nil {
		return -1
	}
	for i, k := range mp.keys {
		if m.decide(m.equals(mp.kt, k, key)) {
			return i
		}
	}
	return -1
}

func (m *Machine) mapSet(mp *Map, key, val Value) {
	if i := m.mapFind(mp, key); i >= 0 {
		mp.vals[i] = val
		return
	}
	mp.keys = append(mp.keys, key)
	mp.vals = append(mp.vals, val)
}

func (m *Machine) mapDelete(mp *Map, key Value) {
	if i := m.mapFind(mp, key); i >= 0 {
		mp.keys = append(mp.keys[:i:i], mp.keys[i+1:]...)
		mp.vals = append(mp.vals[:i:i], mp.vals[i+1:]...)
	}
}

func (m *Machine) lookup(instr *ssa.Lookup, x, idx Value) Value {
	switch x := x.(type) {
	case *Str:
		m.checkTaint(x)
		i := m.concreteIndex(idx, len(x.b))
		return x.b[i]
	case *Map:
		vt := under(instr.X.Type()).(*types.Map).Elem()
		i := m.mapFind(x, idx)
		var v Value
		if i >= 0 {
			v = copyVal(x.vals[i])
		} else {
			v = m.zero(vt)
		}
		if instr.CommaOk {
			return Tuple{v, m.tb.Bool(i >= 0)}
		}
		return v
	}
	panic(fmt.Sprintf("lookup in %T", x))
}

// ---- unary / binary operators -------------------------------------------

func (m *Machine) unop(instr *ssa.UnOp, x Value) Value {
	switch instr.Op {
	case token.ARROW:
		panic(unsupported("channel receive"))
	case token.MUL:
		p := x.(*Value)
		if p == nil {
			panic(&goPanic{msg: "nil pointer dereference (load)"})
		}
		return copyVal(*p)
	case token.NOT:
		return m.tb.Not(x.(*Term))
	case token.SUB:
		if f, ok := x.(Float); ok {
			return Float{-f.v}
		}
		return m.tb.Neg(x.(*Term))
	case token.XOR:
		return m.tb.BNot(x.(*Term))
	}
	panic(fmt.Sprintf("unop %s", instr.Op))
}

func (m *Machine) binop(op token.Token, xt types.Type, x, y Value, yt types.Type) Value {
	tb := m.tb
	switch op {
	case token.EQL:
		return m.equals(xt, x, y)
	case token.NEQ:
		return tb.Not(m.equals(xt, x, y))
	}
	switch xv := x.(type) {
	case *Term:
		yv := y.(*Term)
		w, signed, _ := basicInfo(xt)
		if w == 0 {
			// booleans: only &&/|| arrive as control flow; AND/OR on untyped? not expected
			switch op {
			case token.AND, token.LAND:
				return tb.And(xv, yv)
			case token.OR, token.LOR:
				return tb.Or(xv, yv)
			}
			panic(fmt.Sprintf("bool binop %s", op))
		}
		switch op {
		case token.ADD:
			return tb.bin(OpAdd, xv, yv)
		case token.SUB:
			return tb.bin(OpSub, xv, yv)
		case token.MUL:
			return tb.bin(OpMul, xv, yv)
		case token.QUO:
			m.divCheck(yv)
			if signed {
				return tb.bin(OpSDiv, xv, yv)
			}
			return tb.bin(OpUDiv, xv, yv)
		case token.REM:
			m.divCheck(yv)
			if signed {
				return tb.bin(OpSRem, xv, yv)
			}
			return tb.bin(OpURem, xv, yv)
		case token.AND:
			return tb.bin(OpBAnd, xv, yv)
		case token.OR:
			return tb.bin(OpBOr, xv, yv)
		case token.XOR:
			return tb.bin(OpBXor, xv, yv)
		case token.AND_NOT:
			return tb.bin(OpBAnd, xv, tb.BNot(yv))
		case token.SHL, token.SHR:
			return m.shift(op, xv, yv, signed)
		case token.LSS:
			if signed {
				return tb.Slt(xv, yv)
			}
			return tb.Ult(xv, yv)
		case token.LEQ:
			if signed {
				return tb.Sle(xv, yv)
			}
			return tb.Ule(xv, yv)
		case token.GTR:
			if signed {
				return tb.Slt(yv, xv)
			}
			return tb.Ult(yv, xv)
		case token.GEQ:
			if signed {
				return tb.Sle(yv, xv)
			}
			return tb.Ule(yv, xv)
		}
	case *Str:
		yv := y.(*Str)
		m.checkTaintCmp(op, xv, yv)
		switch op {
		case token.ADD:
			nb := make([]*Term, 0, len(xv.b)+len(yv.b))
			nb = append(nb, xv.b...)
			nb = append(nb, yv.b...)
			return &Str{b: nb, tainted: xv.tainted || yv.tainted}
		case token.LSS:
			return m.bytesLess(xv.b, yv.b, false)
		case token.LEQ:
			return m.bytesLess(xv.b, yv.b, true)
		case token.GTR:
			return m.bytesLess(yv.b, xv.b, false)
		case token.GEQ:
			return m.bytesLess(yv.b, xv.b, true)
		}
	case Float:
		yv := y.(Float)
		switch op {
		case token.ADD:
			return Float{xv.v + yv.v}
		case token.SUB:
			return Float{xv.v - yv.v}
		case token.MUL:
			return Float{xv.v * yv.v}
		case token.QUO:
			return Float{xv.v / yv.v}
		case token.LSS:
			return tb.Bool(xv.v < yv.v)
		case token.LEQ:
			return tb.Bool(xv.v <= yv.v)
		case token.GTR:
			return tb.Bool(xv.v > yv.v)
		case token.GEQ:
			return tb.Bool(xv.v >= yv.v)
		}
	}
	panic(fmt.Sprintf("binop %s on %T, %T", op, x, y))
}

func (m *Machine) checkTaintCmp(op token.Token, x, y *Str) {
	if op != token.ADD && (x.tainted || y.tainted) {
		panic(unsupported("comparison of an opaque (formatted) string"))
	}
}

func (m *Machine) divCheck(y *Term) {
	if y.IsConst() {
		if y.val.Sign() == 0 {
			panic(&goPanic{msg: "integer divide by zero"})
		}
		return
	}
	if m.decide(m.tb.Eq(y, m.tb.Const(0, y.W))) {
		panic(&goPanic{msg: "integer divide by zero"})
	}
}

func (m *Machine) shift(op token.Token, x, y *Term, signed bool) *Term {
	tb := m.tb
	w := x.W
	// bring the count to x's width, saturating
	var cnt *Term
	var over *Term
	if y.W > w {
		over = tb.Ule(tb.Const(uint64(w), y.W), y)
		cnt = tb.Extract(y, w-1, 0)
	} else {
		cnt = tb.Zext(y, w)
		over = tb.Ule(tb.Const(uint64(w), w), cnt)
		if w < 8 && (1<<uint(w)) <= w {
			over = tb.Bool(false)
		}
	}
	var res, sat *Term
	switch {
	case op == token.SHL:
		res, sat = tb.bin(OpShl, x, cnt), tb.Const(0, w)
	case signed:
		res = tb.bin(OpAshr, x, cnt)
		sat = tb.bin(OpAshr, x, tb.Const(uint64(w-1), w))
	default:
		res, sat = tb.bin(OpLshr, x, cnt), tb.Const(0, w)
	}
	return tb.Ite(over, sat, res)
}

// bytesLess builds the lexicographic comparison a < b (or a <= b).
func (m *Machine) bytesLess(a, b []*Term, orEq bool) *Term {
	tb := m.tb
	n := len(a)
	if len(b) < n {
		n = len(b)
	}
	// result when all common bytes are equal
	var tail *Term
	if len(a) < len(b) {
		tail = tb.Bool(true)
	} else if len(a) == len(b) {
		tail = tb.Bool(orEq)
	} else {
		tail = tb.Bool(false)
	}
	res := tail
	for i := n - 1; i >= 0; i-- {
		res = tb.Ite(tb.Ult(a[i], b[i]), tb.Bool(true), tb.Ite(tb.Eq(a[i], b[i]), res, tb.Bool(false)))
	}
	return res
}

func (m *Machine) bytesEq(a, b []*Term) *Term {
	if len(a) != len(b) {
		return m.tb.Bool(false)
	}
	cs := make([]*Term, 0, len(a))
	for i := range a {
		c := m.tb.Eq(a[i], b[i])
		if c.False() {
			return c
		}
		cs = append(cs, c)
	}
	return m.tb.And(cs...)
}

// equals builds the Go == relation for values of static type t.
func (m *Machine) equals(t types.Type, x, y Value) *Term {
	tb := m.tb
	switch xv := x.(type) {
	case *Term:
		return tb.Eq(xv, y.(*Term))
	case *Str:
		yv := y.(*Str)
		if xv.tainted || yv.tainted {
			panic(unsupported("comparison of an opaque (formatted) string"))
		}
		return m.bytesEq(xv.b, yv.b)
	case Float:
		return tb.Bool(xv.v == y.(Float).v)
	case *Value:
		return tb.Bool(xv == y.(*Value))
	case *Map:
		return tb.Bool(xv == y.(*Map))
	case Slice:
		// only comparison with nil is legal
		yv := y.(Slice)
		if yv.IsNil() {
			return tb.Bool(xv.IsNil())
		}
		if xv.IsNil() {
			return tb.Bool(yv.IsNil())
		}
		panic("slice comparison")
	case Struct:
		yv := y.(Struct)
		st := under(t).(*types.Struct)
		var cs []*Term
		for i := range xv {
			if st.Field(i).Name() == "_" {
				continue
			}
			cs = append(cs, m.equals(st.Field(i).Type(), xv[i], yv[i]))
		}
		return tb.And(cs...)
	case Array:
		yv := y.(Array)
		et := under(t).(*types.Array).Elem()
		var cs []*Term
		for i := range xv {
			cs = append(cs, m.equals(et, xv[i], yv[i]))
		}
		return tb.And(cs...)
	case Iface:
		yv := y.(Iface)
		if xv.t == nil || yv.t == nil {
			return tb.Bool(xv.t == nil && yv.t == nil)
		}
		if !types.Identical(xv.t, yv.t) {
			return tb.Bool(false)
		}
		if isNativeValue(xv.v) || isNativeValue(yv.v) {
			return tb.Bool(xv.v == yv.v)
		}
		return m.equals(xv.t, xv.v, yv.v)
	case *ssa.Function:
		yf, ok := y.(*ssa.Function)
		return tb.Bool(ok && xv == yf)
	case *Closure:
		yc, ok := y.(*Closure)
		if ok {
			return tb.Bool(xv == yc)
		}
		if yf, ok := y.(*ssa.Function); ok && yf == nil {
			return tb.Bool(false)
		}
		return tb.Bool(false)
	case nil:
		return tb.Bool(y == nil)
	}
	if isNativeValue(x) {
		return tb.Bool(x == y)
	}
	panic(fmt.Sprintf("equals on %T (%s)", x, t))
}

func isNativeValue(v Value) bool {
	switch v.(type) {
	case *Term, *Str, Float, *Value, *Map, Slice, Struct, Array, Iface, *ssa.Function, *Closure, nil, Tuple, *ssa.Builtin:
		return false
	}
	return true
}

// ---- conversions ---------------------------------------------------------

func (m *Machine) conv(dst, src types.Type, x Value) Value {
	tb := m.tb
	ud, us := under(dst), under(src)
	if tp, ok := dst.(*types.TypeParam); ok {
		ud = tp.Underlying()
	}
	switch us := us.(type) {
	case *types.Pointer:
		return x // pointer <-> unsafe.Pointer
	case *types.Slice:
		// []byte / []rune -> string, or slice -> slice of identical underlying
		if isString(ud) {
			sl := x.(Slice)
			if sl.blob != nil {
				panic(unsupported("string(blob)"))
			}
			if eb, ok := under(us.Elem()).(*types.Basic); ok && eb.Kind() == types.Uint8 {
				return &Str{b: m.bytesOf(sl)}
			}
			// []rune -> string: concrete only
			var sb strings.Builder
			for _, e := range sl.v {
				t := e.(*Term)
				if !t.IsConst() {
					panic(unsupported("string([]rune) with symbolic rune"))
				}
				sb.WriteRune(rune(t.I64()))
			}
			return m.mkStr(sb.String())
		}
		return x
	case *types.Basic:
		if us.Kind() == types.UnsafePointer {
			return x
		}
		if isString(us) {
			s := x.(*Str)
			if isString(ud) {
				return s
			}
			if sd, ok := ud.(*types.Slice); ok {
				m.checkTaint(s)
				if eb, ok := under(sd.Elem()).(*types.Basic); ok && eb.Kind() == types.Uint8 {
					return m.mkBytes(s.b)
				}
				if !s.IsConcrete() {
					// ASCII assumption for symbolic bytes is decided per byte
					out := make([]Value, len(s.b))
					for i, b := range s.b {
						if !b.IsConst() && !m.decide(tb.Ult(b, tb.Const(0x80, 8))) {
							panic(unsupported("[]rune(string) with symbolic non-ASCII byte"))
						}
						out[i] = tb.Zext(b, 32)
					}
					return Slice{v: out}
				}
				var out []Value
				for _, r := range s.Concrete() {
					out = append(out, tb.ConstI(int64(r), 32))
				}
				if out == nil {
					out = []Value{}
				}
				return Slice{v: out}
			}
		}
		if sw, ssigned, ok := basicInfo(us); ok && sw > 0 {
			t := x.(*Term)
			if dw, _, ok := basicInfo(ud); ok && dw > 0 {
				if dw <= sw {
					return tb.Extract(t, dw-1, 0)
				}
				if ssigned {
					return tb.Sext(t, dw)
				}
				return tb.Zext(t, dw)
			}
			if isString(ud) {
				if !t.IsConst() {
					panic(unsupported("string(int) with symbolic value"))
				}
				return m.mkStr(string(rune(t.I64())))
			}
			if isFloat(ud) {
				if !t.IsConst() {
					panic(unsupported("float(int) with symbolic value"))
				}
				if ssigned {
					return Float{float64(t.I64())}
				}
				return Float{float64(t.U64())}
			}
		}
		if isFloat(us) {
			f := x.(Float)
			if isFloat(ud) {
				if b := ud.(*types.Basic); b.Kind() == types.Float32 {
					return Float{float64(float32(f.v))}
				}
				return f
			}
			if dw, signed, ok := basicInfo(ud); ok && dw > 0 {
				if signed {
					return tb.ConstI(int64(f.v), dw)
				}
				return tb.Const(uint64(f.v), dw)
			}
		}
	}
	panic(unsupported(fmt.Sprintf("conversion %s -> %s", src, dst)))
}

// ---- builtins --------------------------------------------------------------

func (m *Machine) callBuiltin(caller *Frame, fn *ssa.Builtin, args []Value) Value {
	tb := m.tb
	switch fn.Name() {
	case "append":
		if len(args) == 1 {
			return args[0]
		}
		dst := args[0].(Slice)
		var add []Value
		switch a := args[1].(type) {
		case *Str:
			m.checkTaint(a)
			for _, b := range a.b {
				add = append(add, b)
			}
		case Slice:
			if a.blob != nil {
				panic(unsupported("append of blob"))
			}
			for _, e := range a.v {
				add = append(add, copyVal(e))
			}
		}
		if dst.blob != nil {
			panic(unsupported("append to blob"))
		}
		if len(add) == 0 {
			return dst
		}
		return Slice{v: goAppend(dst.v, add)}
	case "copy":
		dst := args[0].(Slice)
		var src []Value
		switch a := args[1].(type) {
		case *Str:
			m.checkTaint(a)
			for _, b := range a.b {
				src = append(src, b)
			}
		case Slice:
			if a.blob != nil {
				panic(unsupported("copy from blob"))
			}
			src = a.v
		}
		n := copy(dst.v, src)
		return tb.ConstI(int64(n), 64)
	case "len":
		switch a := args[0].(type) {
		case *Str:
			return tb.ConstI(int64(len(a.b)), 64)
		case Slice:
			if a.blob != nil {
				return tb.ConstI(1, 64) // a marshalled value is never empty
			}
			return tb.ConstI(int64(len(a.v)), 64)
		case Array:
			return tb.ConstI(int64(len(a)), 64)
		case *Value:
			if a == nil {
				return tb.ConstI(0, 64)
			}
			return tb.ConstI(int64(len((*a).(Array))), 64)
		case *Map:
			if a == nil {
				return tb.ConstI(0, 64)
			}
			return tb.ConstI(int64(len(a.keys)), 64)
		}
	case "cap":
		switch a := args[0].(type) {
		case Slice:
			return tb.ConstI(int64(cap(a.v)), 64)
		case Array:
			return tb.ConstI(int64(len(a)), 64)
		case *Value:
			return tb.ConstI(int64(len((*a).(Array))), 64)
		}
	case "delete":
		mp := args[0].(*Map)
		if mp != nil {
			m.mapDelete(mp, args[1])
		}
		return nil
	case "print", "println":
		return nil
	case "recover":
		return m.doRecover(caller)
	case "ssa:wrapnilchk":
		recv := args[0]
		if p, ok := recv.(*Value); ok && p == nil {
			panic(&goPanic{msg: "value method called using nil pointer"})
		}
		return recv
	case "min", "max":
		// concrete or symbolic integers
		res := args[0]
		for _, a := range args[1:] {
			if rt, ok := res.(*Term); ok {
				at := a.(*Term)
				_ = at
				panic(unsupported("min/max builtin"))
				_ = rt
			}
		}
		return res
	case "clear":
		switch a := args[0].(type) {
		case *Map:
			if a != nil {
				a.keys, a.vals = nil, nil
			}
		default:
			panic(unsupported("clear of slice"))
		}
		return nil
	}
	panic(unsupported("builtin " + fn.Name() + fmt.Sprintf(" on %T", args[0])))
}

// goAppend mimics Go's append growth closely enough for aliasing-sensitive code:
// in place when capacity suffices, otherwise a fresh array with doubled capacity.
func goAppend(dst []Value, add []Value) []Value {
	need := len(dst) + len(add)
	if need <= cap(dst) {
		n := len(dst)
		dst = dst[:need]
		copy(dst[n:], add)
		return dst
	}
	newCap := cap(dst) * 2
	if newCap < need {
		newCap = need
	}
	nd := make([]Value, need, newCap)
	copy(nd, dst)
	copy(nd[len(dst):], add)
	return nd
}

func (m *Machine) doRecover(caller *Frame) Value {
	// recover() is called inside a deferred function; the panicking frame is its caller.
	if caller != nil && caller.caller != nil {
		fr := caller.caller
		if fr.panicking {
			fr.panicking = false
			p := fr.panic
			fr.panic = nil
			if gp, ok := p.(*goPanic); ok {
				if iv, ok := gp.v.(Iface); ok {
					return iv
				}
				// runtime error
				return Iface{t: m.p.nativeErrType, v: &ErrObj{kind: "runtime", msg: gp.msg}}
			}
		}
	}
	return Iface{}
}
