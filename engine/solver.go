package main

// Solver: one long-lived SMT solver process (z3 -in by default) per worker.
// Every path runs inside one (push)…(pop) scope; path-condition conjuncts are
// asserted permanently inside that scope; each query is a nested (push)/(pop).
// Any "(error" line or "unknown"/timeout makes the answer Unknown — never Unsat.

import (
	"bufio"
	"os"
	"fmt"
	"io"
	"math/big"
	"os/exec"
	"strings"
	"time"
)

type Verdict int

const (
	Unsat Verdict = iota
	Sat
	Unknown
)

func (v Verdict) String() string { return [...]string{"unsat", "sat", "unknown"}[v] }

type Solver struct {
	cmd     *exec.Cmd
	in      io.WriteCloser
	out     *bufio.Reader
	argv    []string
	sent    map[*Term]bool
	declUF  map[string]bool
	declVar map[*Term]bool
	script  strings.Builder // permanent commands of the current path (for cross-checking)
	nQuery  int
	nSat    int
	nUnsat  int
	nUnk    int
	secs    float64
	timeout int // ms per query
	inPath  bool
	log     io.Writer
}

func NewSolver(argv []string, timeoutMs int) (*Solver, error) {
	s := &Solver{argv: argv, timeout: timeoutMs}
	if err := s.start(); err != nil {
		return nil, err
	}
	return s, nil
}

func (s *Solver) start() error {
	s.cmd = exec.Command(s.argv[0], s.argv[1:]...)
	in, err := s.cmd.StdinPipe()
	if err != nil {
		return err
	}
	out, err := s.cmd.StdoutPipe()
	if err != nil {
		return err
	}
	s.cmd.Stderr = s.cmd.Stdout
	if err := s.cmd.Start(); err != nil {
		return err
	}
	s.in, s.out = in, bufio.NewReaderSize(out, 1<<20)
	s.raw("(set-option :print-success false)")
	s.raw("(set-option :produce-models true)")
	if strings.Contains(s.argv[0], "z3") {
		s.raw(fmt.Sprintf("(set-option :timeout %d)", s.timeout))
	} else {
		s.raw("(set-logic ALL)")
	}
	return nil
}

func (s *Solver) Close() {
	if s.cmd != nil {
		s.in.Close()
		s.cmd.Process.Kill()
		s.cmd.Wait()
		s.cmd = nil
	}
}

func (s *Solver) restart() {
	s.Close()
	if err := s.start(); err != nil {
		panic(err)
	}
}

func (s *Solver) raw(line string) {
	if s.log != nil {
		fmt.Fprintln(s.log, line)
	}
	io.WriteString(s.in, line)
	io.WriteString(s.in, "\n")
}

func (s *Solver) perm(line string) {
	s.script.WriteString(line)
	s.script.WriteString("\n")
	s.raw(line)
}

// BeginPath opens a fresh scope.
func (s *Solver) BeginPath() {
	if s.inPath {
		s.EndPath()
	}
	s.sent = map[*Term]bool{}
	s.declUF = map[string]bool{}
	s.declVar = map[*Term]bool{}
	s.script.Reset()
	s.raw("(push 1)")
	s.inPath = true
}

func (s *Solver) EndPath() {
	if s.inPath {
		s.raw("(pop 1)")
		s.inPath = false
	}
}

// define makes sure t (and its sub-terms) are declared/defined; returns its reference.
func (s *Solver) define(tb *TB, t *Term) string {
	switch t.op {
	case OpConst:
		return constStr(t)
	case OpVar:
		if !s.declVar[t] {
			s.declVar[t] = true
			s.perm(fmt.Sprintf("(declare-const %s %s)", smtName(t.name), sortStr(t.W)))
		}
		return smtName(t.name)
	}
	if s.sent[t] {
		return ref(t)
	}
	// iterative post-order to avoid deep recursion
	type fr struct {
		t *Term
		i int
	}
	stack := []fr{{t, 0}}
	for len(stack) > 0 {
		f := &stack[len(stack)-1]
		if f.i < len(f.t.args) {
			a := f.t.args[f.i]
			f.i++
			switch a.op {
			case OpConst:
			case OpVar:
				s.define(tb, a)
			default:
				if !s.sent[a] {
					stack = append(stack, fr{a, 0})
				}
			}
			continue
		}
		n := f.t
		stack = stack[:len(stack)-1]
		if s.sent[n] {
			continue
		}
		if n.op == OpUF && !s.declUF[n.name] {
			s.declUF[n.name] = true
			sig := tb.ufs[n.name]
			var as []string
			for _, w := range sig.argW {
				as = append(as, sortStr(w))
			}
			s.perm(fmt.Sprintf("(declare-fun %s (%s) %s)", smtName(n.name), strings.Join(as, " "), sortStr(sig.resW)))
		}
		s.sent[n] = true
		s.perm(fmt.Sprintf("(define-fun t%d () %s %s)", n.id, sortStr(n.W), body(n)))
	}
	return ref(t)
}

// Assert adds a permanent conjunct to the current path scope.
func (s *Solver) Assert(tb *TB, t *Term) {
	r := s.define(tb, t)
	s.perm("(assert " + r + ")")
}

func (s *Solver) readLine() (string, error) {
	line, err := s.out.ReadString('\n')
	return strings.TrimSpace(line), err
}

// Check decides sat(path ∧ extra...). If wantModel is non-nil and the answer is Sat,
// the values of the listed terms are returned.
func (s *Solver) Check(tb *TB, extra []*Term, wantModel []*Term) (Verdict, map[*Term]*big.Int) {
	t0 := time.Now()
	defer func() { s.secs += time.Since(t0).Seconds() }()
	s.nQuery++
	var refs []string
	for _, e := range extra {
		refs = append(refs, s.define(tb, e))
	}
	var mrefs []string
	for _, m := range wantModel {
		mrefs = append(mrefs, s.define(tb, m))
	}
	s.raw("(push 1)")
	for _, r := range refs {
		s.raw("(assert " + r + ")")
	}
	s.raw("(check-sat)")
	s.raw("(echo \"@@done\")")
	v := Unknown
	bad := false
	for {
		line, err := s.readLine()
		if err != nil {
			// solver died: restart, answer unknown
			s.restartInPath()
			s.nUnk++
			return Unknown, nil
		}
		if line == "@@done" || line == "\"@@done\"" {
			break
		}
		switch {
		case line == "sat":
			v = Sat
		case line == "unsat":
			v = Unsat
		case line == "unknown" || line == "timeout":
			v = Unknown
		case strings.Contains(line, "(error"):
			bad = true
			if os.Getenv("SYMGO_DEBUG") != "" {
				fmt.Fprintln(os.Stderr, "SOLVER ERROR:", line)
			}
		}
	}
	if bad {
		v = Unknown
	}
	var model map[*Term]*big.Int
	if v == Sat && len(wantModel) > 0 {
		model = map[*Term]*big.Int{}
		s.raw("(get-value (" + strings.Join(mrefs, " ") + "))")
		s.raw("(echo \"@@done\")")
		var sb strings.Builder
		for {
			line, err := s.readLine()
			if err != nil {
				s.restartInPath()
				return Unknown, nil
			}
			if line == "@@done" || line == "\"@@done\"" {
				break
			}
			sb.WriteString(line)
			sb.WriteString(" ")
		}
		vals := parseValues(sb.String())
		if len(vals) != len(wantModel) {
			v = Unknown
		} else {
			for i, m := range wantModel {
				model[m] = vals[i]
			}
		}
	}
	s.raw("(pop 1)")
	if v == Unknown && os.Getenv("SYMGO_DEBUG") != "" {
		for _, e := range extra {
			str := e.String()
			if len(str) > 600 {
				str = str[:600]
			}
			fmt.Fprintf(os.Stderr, "UNKNOWN QUERY (%.1fs): %s\n", time.Since(t0).Seconds(), str)
		}
	}
	switch v {
	case Sat:
		s.nSat++
	case Unsat:
		s.nUnsat++
	default:
		s.nUnk++
	}
	return v, model
}

// CheckHard is Check for proof obligations: an unknown answer (time-out on a loaded machine)
// is retried with four times the time limit, and then put to z3 5.x and cvc5 as a
// self-contained script. Only an unsat answer of those is used (a model is needed for sat).
func (s *Solver) CheckHard(tb *TB, extra []*Term, wantModel []*Term) (Verdict, map[*Term]*big.Int) {
	v, m := s.Check(tb, extra, wantModel)
	if v != Unknown {
		return v, m
	}
	s.raw(fmt.Sprintf("(set-option :timeout %d)", 4*s.timeout))
	v, m = s.Check(tb, extra, wantModel)
	s.raw(fmt.Sprintf("(set-option :timeout %d)", s.timeout))
	if v != Unknown {
		s.nUnk--
		return v, m
	}
	f, err := os.CreateTemp("", "symgo_q_*.smt2")
	if err != nil {
		return Unknown, nil
	}
	defer os.Remove(f.Name())
	io.WriteString(f, "(set-logic ALL)\n"+s.Standalone(tb, extra))
	f.Close()
	secs := 8 * s.timeout / 1000
	for _, argv := range [][]string{{"z3-new", fmt.Sprintf("-T:%d", secs), f.Name()}, {"cvc5", "-q", fmt.Sprintf("--tlimit=%d", secs*1000), f.Name()}} {
		out, _ := exec.Command(argv[0], argv[1:]...).CombinedOutput()
		txt := strings.TrimSpace(string(out))
		if txt == "unsat" {
			s.nUnk -= 2
			s.nUnsat++
			return Unsat, nil
		}
	}
	return Unknown, nil
}

// restartInPath restarts a dead solver and replays the permanent script of the path.
func (s *Solver) restartInPath() {
	script := s.script.String()
	s.restart()
	s.raw("(push 1)")
	io.WriteString(s.in, script)
}

// Standalone returns a self-contained SMT-LIB script deciding path ∧ extra.
func (s *Solver) Standalone(tb *TB, extra []*Term) string {
	var refs []string
	for _, e := range extra {
		refs = append(refs, s.define(tb, e))
	}
	var sb strings.Builder
	sb.WriteString(s.script.String())
	for _, r := range refs {
		sb.WriteString("(assert " + r + ")\n")
	}
	sb.WriteString("(check-sat)\n")
	return sb.String()
}

// parseValues extracts the values from a (get-value …) answer: ((name val) (name val) …)
func parseValues(s string) []*big.Int {
	var out []*big.Int
	// tokenise on whitespace/parens, keep #x…, #b…, true, false, (_ bvN W)
	toks := tokenize(s)
	// structure: ( ( ref val ) ( ref val ) ... ) ; val may be multi-token "(_ bv5 8)"
	i := 0
	if i < len(toks) && toks[i] == "(" {
		i++
	}
	for i < len(toks) {
		if toks[i] != "(" {
			break
		}
		i++
		// skip ref (could be a parenthesised expr, but we only use names)
		depth := 0
		for i < len(toks) {
			if toks[i] == "(" {
				depth++
			} else if toks[i] == ")" {
				depth--
			}
			i++
			if depth == 0 {
				break
			}
		}
		// value
		if i >= len(toks) {
			break
		}
		var v *big.Int
		if toks[i] == "(" {
			// (_ bvN W)
			if i+3 < len(toks) && toks[i+1] == "_" && strings.HasPrefix(toks[i+2], "bv") {
				v, _ = new(big.Int).SetString(toks[i+2][2:], 10)
			}
			for i < len(toks) && toks[i] != ")" {
				i++
			}
			i++
		} else {
			tok := toks[i]
			i++
			switch {
			case tok == "true":
				v = big.NewInt(1)
			case tok == "false":
				v = big.NewInt(0)
			case strings.HasPrefix(tok, "#x"):
				v, _ = new(big.Int).SetString(tok[2:], 16)
			case strings.HasPrefix(tok, "#b"):
				v, _ = new(big.Int).SetString(tok[2:], 2)
			}
		}
		if v == nil {
			return nil
		}
		out = append(out, v)
		if i < len(toks) && toks[i] == ")" {
			i++
		}
	}
	return out
}

func tokenize(s string) []string {
	toks := make([]string, 0, len(s)/4)
	n := len(s)
	i := 0
	for i < n {
		c := s[i]
		switch {
		case c == ' ' || c == '\n' || c == '\t' || c == '\r':
			i++
		case c == '(' || c == ')':
			toks = append(toks, s[i:i+1])
			i++
		case c == '|':
			j := i + 1
			for j < n && s[j] != '|' {
				j++
			}
			if j < n {
				j++
			}
			toks = append(toks, s[i:j])
			i = j
		default:
			j := i
			for j < n {
				d := s[j]
				if d == ' ' || d == '\n' || d == '\t' || d == '\r' || d == '(' || d == ')' {
					break
				}
				j++
			}
			toks = append(toks, s[i:j])
			i = j
		}
	}
	return toks
}
