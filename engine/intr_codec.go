package main

// Opaque marshalling: encoders whose byte format is irrelevant to the properties (JSON of
// []string, protobuf of messages) are modelled as injective functions into fresh fixed-length
// byte vectors, remembered in a per-path registry so that the matching decoder returns a copy
// of the payload. Assumption (stated in the evidence): encode/decode are a faithful inverse pair.

import (
	"fmt"
	"os"
	"go/types"

	"golang.org/x/tools/go/ssa"
)

type marshalled struct {
	kind    string
	bytes   []*Term
	payload Value
	typ     types.Type
}

const opaqueLen = 6

// structEq builds the deep equality term of two payloads of the same shape (false if shapes differ).
func (m *Machine) structEq(a, b Value) *Term {
	tb := m.tb
	switch x := a.(type) {
	case *Term:
		y, ok := b.(*Term)
		if !ok || y.W != x.W {
			return tb.Bool(false)
		}
		return tb.Eq(x, y)
	case *Str:
		y, ok := b.(*Str)
		if !ok {
			return tb.Bool(false)
		}
		return m.bytesEq(x.b, y.b)
	case Slice:
		y, ok := b.(Slice)
		if !ok || len(x.v) != len(y.v) || x.IsNil() != y.IsNil() {
			return tb.Bool(false)
		}
		var cs []*Term
		for i := range x.v {
			cs = append(cs, m.structEq(x.v[i], y.v[i]))
		}
		return tb.And(cs...)
	case Struct:
		y, ok := b.(Struct)
		if !ok || len(x) != len(y) {
			return tb.Bool(false)
		}
		var cs []*Term
		for i := range x {
			cs = append(cs, m.structEq(x[i], y[i]))
		}
		return tb.And(cs...)
	case Array:
		y, ok := b.(Array)
		if !ok || len(x) != len(y) {
			return tb.Bool(false)
		}
		var cs []*Term
		for i := range x {
			cs = append(cs, m.structEq(x[i], y[i]))
		}
		return tb.And(cs...)
	case *Value:
		y, ok := b.(*Value)
		if !ok {
			return tb.Bool(false)
		}
		if x == nil || y == nil {
			return tb.Bool(x == nil && y == nil)
		}
		return m.structEq(*x, *y)
	case Iface:
		y, ok := b.(Iface)
		if !ok {
			return tb.Bool(false)
		}
		if x.t == nil || y.t == nil {
			return tb.Bool(x.t == nil && y.t == nil)
		}
		if !types.Identical(x.t, y.t) {
			return tb.Bool(false)
		}
		return m.structEq(x.v, y.v)
	case Float:
		y, ok := b.(Float)
		return tb.Bool(ok && x.v == y.v)
	case *BigIntObj:
		y, ok := b.(*BigIntObj)
		if !ok {
			if st, isS := b.(Struct); isS && len(st) == 2 {
				return tb.Eq(x.v, tb.Const(0, bigW))
			}
			return tb.Bool(false)
		}
		return tb.Eq(x.v, y.v)
	case nil:
		return tb.Bool(b == nil)
	}
	return tb.Bool(a == b)
}

// deepCopy snapshots a payload (pointers are followed, aliasing is not preserved).
func deepCopy(v Value) Value {
	switch x := v.(type) {
	case Slice:
		if x.v == nil {
			return x
		}
		nv := make([]Value, len(x.v))
		for i := range x.v {
			nv[i] = deepCopy(x.v[i])
		}
		return Slice{v: nv, blob: x.blob}
	case Struct:
		n := make(Struct, len(x))
		for i := range x {
			n[i] = deepCopy(x[i])
		}
		return n
	case Array:
		n := make(Array, len(x))
		for i := range x {
			n[i] = deepCopy(x[i])
		}
		return n
	case *Value:
		if x == nil {
			return x
		}
		c := deepCopy(*x)
		return &c
	case Iface:
		return Iface{t: x.t, v: deepCopy(x.v)}
	}
	return v
}

// marshalOpaque returns the byte vector standing for encode(payload).
func (m *Machine) marshalOpaque(kind string, payload Value, typ types.Type) Slice {
	tb := m.tb
	snap := deepCopy(payload)
	// a payload that is term-for-term the one encoded before gets the same bytes (the codec is a function)
	for _, prev := range m.marsh {
		if prev.kind == kind && m.structEq(prev.payload, snap).True() {
			return m.mkBytes(prev.bytes)
		}
	}
	bs := make([]*Term, opaqueLen)
	for i := range bs {
		bs[i] = tb.Fresh("enc."+kind, 8)
	}
	// injective: equal bytes <=> equal payload (same kind)
	for _, prev := range m.marsh {
		if prev.kind != kind {
			continue
		}
		eqP := m.structEq(prev.payload, snap)
		if os.Getenv("SYMGO_DEBUG") != "" {
			fmt.Fprintf(os.Stderr, "marshalOpaque %s: prev=%s\n   new=%s\n   eq=%s\n", kind, truncate(describe(prev.payload), 300), truncate(describe(snap), 300), truncate(eqP.String(), 200))
		}
		eqB := m.bytesEq(prev.bytes, bs)
		m.addAxiom(tb.Eq(eqP, eqB))
	}
	m.marsh = append(m.marsh, &marshalled{kind: kind, bytes: bs, payload: snap, typ: typ})
	return m.mkBytes(bs)
}

// unmarshalOpaque finds the payload encoded by bz (forking on symbolic equality); ok=false if none.
func (m *Machine) unmarshalOpaque(kind string, bz []*Term) (Value, *marshalled) {
	// identical term vectors first (the common case: value read back from the store)
	for i := len(m.marsh) - 1; i >= 0; i-- {
		e := m.marsh[i]
		if e.kind != kind || len(e.bytes) != len(bz) {
			continue
		}
		same := true
		for j := range bz {
			if bz[j] != e.bytes[j] {
				same = false
				break
			}
		}
		if same {
			return deepCopy(e.payload), e
		}
	}
	for i := len(m.marsh) - 1; i >= 0; i-- {
		e := m.marsh[i]
		if e.kind != kind || len(e.bytes) != len(bz) {
			continue
		}
		if m.decide(m.bytesEq(e.bytes, bz)) {
			return deepCopy(e.payload), e
		}
	}
	return nil, nil
}

func registerCodec(p *Program) {
	I := p.intrinsics
	// encoding/json for []string (routing rules) and small structs
	I["encoding/json.Marshal"] = func(m *Machine, fr *Frame, fn *ssa.Function, a []Value) Value {
		iv := a[0].(Iface)
		if iv.t == nil {
			return Tuple{m.mkByteSliceConst([]byte("null")), Iface{}}
		}
		return Tuple{m.marshalOpaque("json", iv.v, iv.t), Iface{}}
	}
	I["encoding/json.Unmarshal"] = func(m *Machine, fr *Frame, fn *ssa.Function, a []Value) Value {
		bz := m.bytesArg(a[0])
		dst := a[1].(Iface)
		ptr, ok := dst.v.(*Value)
		if !ok || ptr == nil {
			panic(unsupported("json.Unmarshal into a non-pointer"))
		}
		payload, e := m.unmarshalOpaque("json", bz)
		if e == nil {
			return m.errIface(&ErrObj{kind: "new", msg: "json: cannot unmarshal"})
		}
		want := deref(dst.t)
		if !types.Identical(want, e.typ) {
			return m.errIface(&ErrObj{kind: "new", msg: fmt.Sprintf("json: cannot unmarshal %s into %s", e.typ, want)})
		}
		*ptr = payload
		return Iface{}
	}
}

// ProtoCodecObj stands for codec.ProtoCodec / LegacyAmino style codecs: binary and JSON
// encodings are opaque injective encodings (marshalOpaque).
type ProtoCodecObj struct{}

func (c *ProtoCodecObj) HasMethod(n string) bool { return true }

func (m *Machine) msgPayload(v Value) (Value, types.Type) {
	iv, ok := v.(Iface)
	if !ok || iv.t == nil {
		panic(unsupported("codec: nil message"))
	}
	if p, ok := iv.v.(*Value); ok {
		if p == nil {
			panic(&goPanic{msg: "codec: nil pointer message"})
		}
		return *p, iv.t
	}
	return iv.v, iv.t
}

func (c *ProtoCodecObj) Invoke(m *Machine, method string, a []Value) Value {
	errv := func(msg string) Value { return m.errIface(&ErrObj{kind: "new", msg: msg}) }
	kind := "proto"
	switch method {
	case "MarshalJSON", "MustMarshalJSON", "UnmarshalJSON", "MustUnmarshalJSON":
		kind = "pjson"
	case "MarshalInterface", "UnmarshalInterface", "MarshalInterfaceJSON", "UnmarshalInterfaceJSON":
		kind = "piface"
	}
	switch method {
	case "Marshal", "MarshalJSON", "MarshalLengthPrefixed":
		pl, t := m.msgPayload(a[0])
		return Tuple{m.marshalOpaque(kind, pl, t), Iface{}}
	case "MustMarshal", "MustMarshalJSON", "MustMarshalLengthPrefixed":
		pl, t := m.msgPayload(a[0])
		return m.marshalOpaque(kind, pl, t)
	case "Unmarshal", "UnmarshalJSON", "MustUnmarshal", "MustUnmarshalJSON", "UnmarshalLengthPrefixed", "MustUnmarshalLengthPrefixed":
		must := method[:4] == "Must"
		bz := m.bytesArg(a[0])
		dst := a[1].(Iface)
		ptr, ok := dst.v.(*Value)
		if !ok || ptr == nil {
			panic(unsupported("codec.Unmarshal into a non-pointer"))
		}
		if len(bz) == 0 && kind == "proto" {
			// protobuf: the empty encoding is the zero message
			*ptr = m.zero(deref(dst.t))
			if must {
				return nil
			}
			return Iface{}
		}
		payload, e := m.unmarshalOpaque(kind, bz)
		if e == nil || !types.Identical(e.typ, dst.t) {
			if must {
				panic(&goPanic{msg: "codec: cannot unmarshal"})
			}
			return errv("codec: cannot unmarshal")
		}
		*ptr = payload
		if must {
			return nil
		}
		return Iface{}
	case "MarshalInterface", "MarshalInterfaceJSON":
		iv := a[0].(Iface)
		if iv.t == nil {
			return Tuple{Slice{}, errv("codec: nil interface")}
		}
		return Tuple{m.marshalOpaque(kind, deepCopy(iv), iv.t), Iface{}}
	case "UnmarshalInterface", "UnmarshalInterfaceJSON":
		bz := m.bytesArg(a[0])
		dst := a[1].(Iface)
		ptr, ok := dst.v.(*Value)
		if !ok || ptr == nil {
			panic(unsupported("codec.UnmarshalInterface into a non-pointer"))
		}
		payload, e := m.unmarshalOpaque(kind, bz)
		if e == nil {
			return errv("codec: cannot unmarshal interface")
		}
		piv := payload.(Iface)
		want, isI := under(deref(dst.t)).(*types.Interface)
		if !isI || !m.implements(piv, want) {
			return errv("codec: value does not implement the requested interface")
		}
		*ptr = piv
		return Iface{}
	case "RegisterInterface", "RegisterImplementations", "RegisterCustomTypeURL", "EnsureRegistered":
		return nil
	case "InterfaceRegistry":
		return Iface{t: m.p.ntype("native.InterfaceRegistry"), v: c}
	case "UnpackAny":
		return Iface{}
	}
	panic(unsupported("codec method " + method))
}

func registerProtoCodec(p *Program) {
	I := p.intrinsics
	const cdc = "github.com/cosmos/cosmos-sdk/codec."
	I[cdc+"NewProtoCodec"] = func(m *Machine, fr *Frame, fn *ssa.Function, a []Value) Value { return &ProtoCodecObj{} }
	I[cdc+"NewLegacyAmino"] = func(m *Machine, fr *Frame, fn *ssa.Function, a []Value) Value { return &ProtoCodecObj{} }
	I[cdc+"types.NewInterfaceRegistry"] = func(m *Machine, fr *Frame, fn *ssa.Function, a []Value) Value {
		return Iface{t: m.p.ntype("native.InterfaceRegistry"), v: &ProtoCodecObj{}}
	}
	I["github.com/cosmos/cosmos-sdk/codec/types.NewInterfaceRegistry"] = I[cdc+"types.NewInterfaceRegistry"]
	for _, meth := range []string{"Marshal", "MustMarshal", "Unmarshal", "MustUnmarshal", "MarshalJSON", "MustMarshalJSON", "UnmarshalJSON", "MustUnmarshalJSON",
		"MarshalInterface", "UnmarshalInterface", "MarshalLengthPrefixed", "MustMarshalLengthPrefixed", "UnmarshalLengthPrefixed", "MustUnmarshalLengthPrefixed", "InterfaceRegistry", "UnpackAny"} {
		meth := meth
		I["(*"+cdc+"ProtoCodec)."+meth] = func(m *Machine, fr *Frame, fn *ssa.Function, a []Value) Value {
			c, ok := a[0].(*ProtoCodecObj)
			if !ok {
				c = &ProtoCodecObj{}
			}
			return c.Invoke(m, meth, a[1:])
		}
	}
	packAny := func(m *Machine, fn *ssa.Function, v Value) Value {
		anyT := deref(fn.Signature.Results().At(0).Type())
		st := m.zero(anyT).(Struct)
		sty := under(anyT).(*types.Struct)
		for i := 0; i < sty.NumFields(); i++ {
			switch sty.Field(i).Name() {
			case "cachedValue":
				st[i] = v
			case "TypeUrl":
				if iv, ok := v.(Iface); ok && iv.t != nil {
					st[i] = m.mkStr("/" + iv.t.String())
				}
			}
		}
		var cell Value = st
		return &cell
	}
	I["github.com/cosmos/cosmos-sdk/codec/types.UnsafePackAny"] = func(m *Machine, fr *Frame, fn *ssa.Function, a []Value) Value {
		return packAny(m, fn, a[0])
	}
	I["github.com/cosmos/cosmos-sdk/codec/types.NewAnyWithValue"] = func(m *Machine, fr *Frame, fn *ssa.Function, a []Value) Value {
		iv := a[0].(Iface)
		if iv.t == nil {
			return Tuple{(*Value)(nil), m.errIface(&ErrObj{kind: "new", msg: "Expecting non nil value to create a new Any"})}
		}
		return Tuple{packAny(m, fn, iv), Iface{}}
	}
	I["github.com/cosmos/gogoproto/proto.Equal"] = func(m *Machine, fr *Frame, fn *ssa.Function, a []Value) Value {
		x, y := a[0].(Iface), a[1].(Iface)
		if x.t == nil || y.t == nil {
			return m.tb.Bool(x.t == nil && y.t == nil)
		}
		if !types.Identical(x.t, y.t) {
			return m.tb.Bool(false)
		}
		return m.structEq(x.v, y.v)
	}
	I["github.com/cosmos/cosmos-sdk/types/msgservice.RegisterMsgServiceDesc"] = func(m *Machine, fr *Frame, fn *ssa.Function, a []Value) Value { return nil }
	I["github.com/ethereum/go-ethereum/rlp.EncodeToBytes"] = func(m *Machine, fr *Frame, fn *ssa.Function, a []Value) Value {
		iv := a[0].(Iface)
		if iv.t == nil {
			return Tuple{Slice{}, m.errIface(&ErrObj{kind: "new", msg: "rlp: nil"})}
		}
		pl := iv.v
		if p, ok := pl.(*Value); ok && p != nil {
			pl = *p
		}
		return Tuple{m.marshalOpaque("rlp", pl, iv.t), Iface{}}
	}
	I["github.com/ethereum/go-ethereum/rlp.DecodeBytes"] = func(m *Machine, fr *Frame, fn *ssa.Function, a []Value) Value {
		bz := m.bytesArg(a[0])
		dst := a[1].(Iface)
		ptr, ok := dst.v.(*Value)
		if !ok || ptr == nil {
			panic(unsupported("rlp.DecodeBytes into a non-pointer"))
		}
		payload, e := m.unmarshalOpaque("rlp", bz)
		if e == nil {
			return m.errIface(&ErrObj{kind: "new", msg: "rlp: cannot decode"})
		}
		// encoded as T or *T, decoded into *T
		want := deref(dst.t)
		et := e.typ
		if pt, isP := under(et).(*types.Pointer); isP {
			et = pt.Elem()
		}
		if !types.Identical(want, et) {
			return m.errIface(&ErrObj{kind: "new", msg: "rlp: type mismatch"})
		}
		*ptr = payload
		return Iface{}
	}
	for _, n := range []string{"github.com/cosmos/gogoproto/proto.CompactTextString", "github.com/cosmos/gogoproto/proto.MarshalTextString", "github.com/golang/protobuf/proto.CompactTextString"} {
		I[n] = func(m *Machine, fr *Frame, fn *ssa.Function, a []Value) Value {
			return &Str{b: m.mkStr("<proto text>").b, tainted: true}
		}
	}
	// vp.Codec(): a codec object for harnesses that need the real-codec behaviour
	I[vpPath+"Codec"] = func(m *Machine, fr *Frame, fn *ssa.Function, a []Value) Value {
		return Iface{t: m.p.ntype("native.ProtoCodec"), v: &ProtoCodecObj{}}
	}
}
