package main

import "net/url"

func urlPathEscape(s string) string { return url.PathEscape(s) }
