package main

// Path exploration: a work list of decision prefixes distributed over workers,
// each with its own solver process. Every path is executed from scratch.

import (
	"fmt"
	"runtime/debug"
	"sort"
	"strings"
	"sync"
	"time"

	"golang.org/x/tools/go/ssa"
)

type ExploreCfg struct {
	Workers   int
	SolverCmd []string
	TimeoutMs int
	MaxPaths  int
	MapPerm   bool
	MapRev    bool
	Twice     bool
	Deadline  time.Time
}

type EntryReport struct {
	Entry        string
	Paths        int
	Forks        int
	Steps        int
	Outcomes     map[string]int
	Unsupported  map[string]int
	Obligations  []Obligation // aggregated: one per (kind,label) with worst verdict + first model
	Queries      int
	QSat         int
	QUnsat       int
	QUnknown     int
	SolverSecs   float64
	WallSecs     float64
	Truncated    bool
	PerLabel     map[string]*LabelStat
	Scripts      map[string]string // label -> standalone SMT script of one discharged query (for cross-checking)
	Inputs       []string
	EngineErrors []string
	ForkSites    map[string]int
	Panics       map[string]int
	Expected     []string // kind|label of every vp.Assert/Reach/Note call site reachable from the entry (static)
}

type LabelStat struct {
	Kind        string
	Label       string
	Holds       int // unsat answers (paths on which the assertion was proved)
	Trivial     int // concretely true on the path (no query needed)
	Violated    int
	Unknown     int
	Witnessed   int
	FirstBad    *Obligation
	Bad         []*Obligation // up to 8 violating paths with their models
	Witness     *Obligation
	witnessPath []int
	Pos         string
}

func (p *Program) Explore(entry *ssa.Function, cfg ExploreCfg) *EntryReport {
	rep := &EntryReport{Entry: entry.Name(), Outcomes: map[string]int{}, Unsupported: map[string]int{}, PerLabel: map[string]*LabelStat{}, Scripts: map[string]string{}, ForkSites: map[string]int{}, Panics: map[string]int{}}
	t0 := time.Now()
	var mu sync.Mutex
	cond := sync.NewCond(&mu)
	queue := [][]int{nil}
	active := 0
	inputsSeen := map[string]bool{}

	worker := func() {
		sol, err := NewSolver(cfg.SolverCmd, cfg.TimeoutMs)
		if err != nil {
			mu.Lock()
			rep.EngineErrors = append(rep.EngineErrors, "solver start: "+err.Error())
			mu.Unlock()
			return
		}
		defer sol.Close()
		npaths := 0
		for {
			mu.Lock()
			for len(queue) == 0 && active > 0 {
				cond.Wait()
			}
			if len(queue) == 0 && active == 0 {
				mu.Unlock()
				cond.Broadcast()
				break
			}
			if (cfg.MaxPaths > 0 && rep.Paths >= cfg.MaxPaths) || (!cfg.Deadline.IsZero() && time.Now().After(cfg.Deadline)) {
				rep.Truncated = true
				queue = nil
				mu.Unlock()
				cond.Broadcast()
				if active == 0 {
					break
				}
				mu.Lock()
				for active > 0 && len(queue) == 0 {
					cond.Wait()
				}
				mu.Unlock()
				continue
			}
			// depth-first: take the most recently added prefix
			task := queue[len(queue)-1]
			queue = queue[:len(queue)-1]
			active++
			rep.Paths++
			mu.Unlock()

			npaths++
			if npaths%200 == 0 {
				sol.restart()
			}
			m := p.newMachine(sol, task)
			m.mapPerm = cfg.MapPerm
			m.mapRev = cfg.MapRev
			m.twice = cfg.Twice
			res := m.runPath(entry, rep, &mu)

			mu.Lock()
			active--
			rep.Outcomes[res.Outcome]++
			if res.Outcome == "panic" {
				rep.Panics[res.Msg]++
			}
			if res.Outcome == "unsupported" || res.Outcome == "engine-error" || res.Outcome == "unwind" {
				rep.Unsupported[res.Msg]++
			}
			rep.Forks += res.Forks
			rep.Steps += res.Steps
			for _, in := range m.inputs {
				if !inputsSeen[in.Name] {
					inputsSeen[in.Name] = true
					rep.Inputs = append(rep.Inputs, in.Name+":"+in.Kind)
				}
			}
			for _, ob := range res.Obligations {
				key := ob.Kind + "|" + ob.Label
				ls := rep.PerLabel[key]
				if ls == nil {
					ls = &LabelStat{Kind: ob.Kind, Label: ob.Label, Pos: ob.Pos}
					rep.PerLabel[key] = ls
				}
				switch ob.Verdict {
				case "holds":
					if ob.Trivial {
						ls.Trivial++
					} else {
						ls.Holds++
					}
				case "violated":
					ls.Violated++
					if ls.FirstBad == nil {
						o := ob
						ls.FirstBad = &o
					}
					if len(ls.Bad) < 8 {
						o := ob
						ls.Bad = append(ls.Bad, &o)
					}
				case "unknown":
					ls.Unknown++
				case "witnessed":
					ls.Witnessed++
					if ob.Kind == "reach" && (ls.Witness == nil || lexLess(res.Decisions, ls.witnessPath)) {
						o := ob
						ls.Witness = &o // the witness of the lexicographically first path (independent of worker timing)
						ls.witnessPath = append([]int(nil), res.Decisions...)
					}
				}
			}
			queue = append(queue, m.newTasks...)
			mu.Unlock()
			cond.Broadcast()
		}
		mu.Lock()
		rep.Queries += sol.nQuery
		rep.QSat += sol.nSat
		rep.QUnsat += sol.nUnsat
		rep.QUnknown += sol.nUnk
		rep.SolverSecs += sol.secs
		mu.Unlock()
	}
	var wg sync.WaitGroup
	n := cfg.Workers
	if n < 1 {
		n = 1
	}
	for i := 0; i < n; i++ {
		wg.Add(1)
		go func() { defer wg.Done(); worker() }()
	}
	wg.Wait()
	rep.WallSecs = time.Since(t0).Seconds()
	sort.Strings(rep.Inputs)
	return rep
}

// runPath executes the entry along m.prefix and returns the outcome.
func (m *Machine) runPath(entry *ssa.Function, rep *EntryReport, mu *sync.Mutex) (res *PathResult) {
	res = m.res
	m.sol.BeginPath()
	defer m.sol.EndPath()
	m.curRep, m.curMu = rep, mu
	defer func() {
		res.Decisions = m.decisions
		res.Steps = m.steps
		if r := recover(); r != nil {
			switch r := r.(type) {
			case pathEnd:
				switch r.kind {
				case "assume":
					res.Outcome = "assume-infeasible"
				case "unwind":
					res.Outcome = "unwind"
					res.Msg = r.msg
				default:
					res.Outcome = "ok"
				}
			case unsupportedErr:
				res.Outcome = "unsupported"
				res.Msg = r.msg
			case *goPanic:
				res.Outcome = "panic"
				res.Msg = r.msg
			default:
				res.Outcome = "engine-error"
				st := string(debug.Stack())
				// keep the interesting part of the stack
				lines := strings.Split(st, "\n")
				var keep []string
				for _, l := range lines {
					if strings.Contains(l, "symgo") || strings.Contains(l, "/engine/") {
						keep = append(keep, strings.TrimSpace(l))
					}
					if len(keep) > 14 {
						break
					}
				}
				res.Msg = fmt.Sprintf("%v @ %s", r, strings.Join(keep, " | "))
			}
		}
	}()
	m.call(nil, entry, nil)
	if m.twice {
		// 2-safety: execute the entry again in the same "process" (same package-level state), with the
		// same inputs, fresh stores, independently chosen map iteration orders and clock readings
		m.run = 2
		m.nInputs1 = len(m.inputs)
		m.inputIdx, m.evIdx = 0, 0
		m.labelSuffix = ""
		m.call(nil, entry, nil)
		if m.evIdx != len(m.events1) {
			m.c20mismatch("the repeated execution ends earlier than the first one")
		}
	}
	res.Outcome = "ok"
	return res
}

func lexLess(a, b []int) bool {
	for i := 0; i < len(a) && i < len(b); i++ {
		if a[i] != b[i] {
			return a[i] < b[i]
		}
	}
	return len(a) < len(b)
}
