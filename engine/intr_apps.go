package main

// Intrinsics used by the application modules: generated protobuf Marshal/Unmarshal methods
// (opaque injective encoding, same registry as the codec), bech32 account addresses.

import (
	"fmt"
	"go/types"
	"strings"

	"golang.org/x/tools/go/ssa"
)

// pbIntrinsic recognises generated gogoproto methods (*T).Marshal / (*T).Unmarshal by the
// source file they are declared in (*.pb.go).
func (p *Program) pbIntrinsic(fn *ssa.Function) Intrinsic {
	if fn.Signature.Recv() == nil {
		return nil
	}
	name := fn.Name()
	if name != "Marshal" && name != "Unmarshal" {
		return nil
	}
	pos := p.prog.Fset.Position(fn.Pos())
	if !strings.HasSuffix(pos.Filename, ".pb.go") {
		return nil
	}
	if name == "Marshal" {
		return func(m *Machine, fr *Frame, fn *ssa.Function, a []Value) Value {
			ptr, ok := a[0].(*Value)
			if !ok || ptr == nil {
				panic(unsupported("pb Marshal on a nil / non-pointer receiver"))
			}
			return Tuple{m.marshalOpaque("proto", *ptr, fn.Signature.Recv().Type()), Iface{}}
		}
	}
	return func(m *Machine, fr *Frame, fn *ssa.Function, a []Value) Value {
		ptr, ok := a[0].(*Value)
		if !ok || ptr == nil {
			panic(unsupported("pb Unmarshal on a nil / non-pointer receiver"))
		}
		bz := m.bytesArg(a[1])
		payload, e := m.unmarshalOpaque("proto", bz)
		if e == nil || !types.Identical(e.typ, fn.Signature.Recv().Type()) {
			return m.errIface(&ErrObj{kind: "new", msg: "proto: cannot unmarshal"})
		}
		*ptr = payload
		return Iface{}
	}
}

// ---- bech32 (BIP-173) for concrete data ----------------------------------------------

const bech32Charset = "qpzry9x8gf2tvdw0s3jn54khce6mua7l"

func bech32Polymod(values []int) int {
	gen := []int{0x3b6a57b2, 0x26508e6d, 0x1ea119fa, 0x3d4233dd, 0x2a1462b3}
	chk := 1
	for _, v := range values {
		b := chk >> 25
		chk = (chk&0x1ffffff)<<5 ^ v
		for i := 0; i < 5; i++ {
			if (b>>uint(i))&1 == 1 {
				chk ^= gen[i]
			}
		}
	}
	return chk
}

func bech32HrpExpand(hrp string) []int {
	var v []int
	for _, c := range hrp {
		v = append(v, int(c>>5))
	}
	v = append(v, 0)
	for _, c := range hrp {
		v = append(v, int(c&31))
	}
	return v
}

func convertBits(data []byte, from, to uint, pad bool) ([]byte, bool) {
	acc, bits := 0, uint(0)
	var ret []byte
	maxv := (1 << to) - 1
	for _, b := range data {
		acc = (acc << from) | int(b)
		bits += from
		for bits >= to {
			bits -= to
			ret = append(ret, byte((acc>>bits)&maxv))
		}
	}
	if pad {
		if bits > 0 {
			ret = append(ret, byte((acc<<(to-bits))&maxv))
		}
	} else if bits >= from || ((acc<<(to-bits))&maxv) != 0 {
		return nil, false
	}
	return ret, true
}

func bech32Encode(hrp string, data []byte) string {
	d5, _ := convertBits(data, 8, 5, true)
	vals := append(bech32HrpExpand(hrp), func() []int {
		o := make([]int, len(d5))
		for i, b := range d5 {
			o[i] = int(b)
		}
		return o
	}()...)
	pm := bech32Polymod(append(vals, 0, 0, 0, 0, 0, 0)) ^ 1
	var sb strings.Builder
	sb.WriteString(hrp + "1")
	for _, b := range d5 {
		sb.WriteByte(bech32Charset[b])
	}
	for i := 0; i < 6; i++ {
		sb.WriteByte(bech32Charset[(pm>>uint(5*(5-i)))&31])
	}
	return sb.String()
}

func bech32Decode(s string) (string, []byte, bool) {
	if len(s) < 8 || len(s) > 1023 || strings.ToLower(s) != s && strings.ToUpper(s) != s {
		return "", nil, false
	}
	s = strings.ToLower(s)
	i := strings.LastIndex(s, "1")
	if i < 1 || i+7 > len(s) {
		return "", nil, false
	}
	hrp := s[:i]
	var vals []int
	for _, c := range s[i+1:] {
		k := strings.IndexRune(bech32Charset, c)
		if k < 0 {
			return "", nil, false
		}
		vals = append(vals, k)
	}
	if bech32Polymod(append(bech32HrpExpand(hrp), vals...)) != 1 {
		return "", nil, false
	}
	d5 := make([]byte, len(vals)-6)
	for j := range d5 {
		d5[j] = byte(vals[j])
	}
	data, ok := convertBits(d5, 5, 8, false)
	if !ok {
		return "", nil, false
	}
	return hrp, data, true
}

func registerApps(p *Program) {
	I := p.intrinsics
	I[sdkTypes+"AccAddressFromBech32"] = func(m *Machine, fr *Frame, fn *ssa.Function, a []Value) Value {
		s := m.strArg(a[0])
		if !s.IsConcrete() {
			panic(unsupported("AccAddressFromBech32 of a symbolic string (harness addresses must be concrete)"))
		}
		str := s.Concrete()
		if len(strings.TrimSpace(str)) == 0 {
			return Tuple{Slice{}, m.errIface(&ErrObj{kind: "new", msg: "empty address string is not allowed"})}
		}
		hrp, data, ok := bech32Decode(str)
		if !ok || hrp != "cosmos" || len(data) == 0 || len(data) > 255 {
			return Tuple{Slice{}, m.errIface(&ErrObj{kind: "new", msg: "decoding bech32 failed"})}
		}
		return Tuple{m.mkByteSliceConst(data), Iface{}}
	}
	I["("+sdkTypes+"AccAddress).String"] = func(m *Machine, fr *Frame, fn *ssa.Function, a []Value) Value {
		sl := a[0].(Slice)
		if len(sl.v) == 0 {
			return m.mkStr("")
		}
		bs := make([]byte, len(sl.v))
		for i, e := range sl.v {
			t := e.(*Term)
			if !t.IsConst() {
				panic(unsupported("AccAddress.String of symbolic bytes"))
			}
			bs[i] = byte(t.U64())
		}
		return m.mkStr(bech32Encode("cosmos", bs))
	}
	I["strings.ToUpper"] = func(m *Machine, fr *Frame, fn *ssa.Function, a []Value) Value {
		s := m.strArg(a[0])
		m.checkTaint(s)
		tb := m.tb
		out := make([]*Term, len(s.b))
		for i, c := range s.b {
			if !c.IsConst() && !m.decide(tb.Ult(c, tb.Const(0x80, 8))) {
				panic(unsupported("ToUpper on symbolic non-ASCII byte"))
			}
			isLow := tb.And(tb.Ule(tb.Const('a', 8), c), tb.Ule(c, tb.Const('z', 8)))
			out[i] = tb.Ite(isLow, tb.Sub(c, tb.Const(32, 8)), c)
		}
		return &Str{b: out}
	}
	_ = fmt.Sprint
}
