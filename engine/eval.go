package main

// Model-guided branching: the last satisfying assignment returned by the solver is kept
// (values of variables and of UF applications). A branch condition that evaluates to a constant
// under it has one side known satisfiable without asking the solver, which roughly halves the
// number of feasibility queries. Evaluation re-uses the constant folding of the term builder.

import "math/big"

// leaves of the builder: variables and UF applications, in creation order.
func (b *TB) leafTerms() []*Term {
	return b.vars
}

// rebuild reconstructs node t over new arguments using the folding constructors.
func (b *TB) rebuild(t *Term, args []*Term) *Term {
	switch t.op {
	case OpNot:
		return b.Not(args[0])
	case OpAnd:
		return b.And(args...)
	case OpOr:
		return b.Or(args...)
	case OpEq:
		return b.Eq(args[0], args[1])
	case OpIte:
		return b.Ite(args[0], args[1], args[2])
	case OpAdd, OpSub, OpMul, OpUDiv, OpSDiv, OpURem, OpSRem, OpBAnd, OpBOr, OpBXor, OpShl, OpLshr, OpAshr:
		return b.bin(t.op, args[0], args[1])
	case OpBNot:
		return b.BNot(args[0])
	case OpNeg:
		return b.Neg(args[0])
	case OpUlt, OpUle, OpSlt, OpSle:
		return b.cmp(t.op, args[0], args[1])
	case OpConcat:
		return b.Concat(args...)
	case OpExtract:
		return b.Extract(args[0], t.hi, t.lo)
	case OpZext:
		return b.Zext(args[0], t.W)
	case OpSext:
		return b.Sext(args[0], t.W)
	}
	return nil
}

// evalUnder evaluates t under the model; ok=false if a leaf has no value.
func (m *Machine) evalUnder(t *Term, model map[*Term]*big.Int, memo map[*Term]*Term) (*Term, bool) {
	if t.op == OpConst {
		return t, true
	}
	if r, ok := memo[t]; ok {
		return r, r != nil
	}
	if t.op == OpVar || t.op == OpUF {
		v, ok := model[t]
		if !ok {
			memo[t] = nil
			return nil, false
		}
		r := m.tb.ConstBig(v, t.W)
		memo[t] = r
		return r, true
	}
	args := make([]*Term, len(t.args))
	for i, a := range t.args {
		r, ok := m.evalUnder(a, model, memo)
		if !ok {
			// short-circuit forms may still be decided, but keep it simple
			memo[t] = nil
			return nil, false
		}
		args[i] = r
	}
	r := m.tb.rebuild(t, args)
	if r == nil || r.op != OpConst {
		memo[t] = nil
		return nil, false
	}
	memo[t] = r
	return r, true
}

// modelSays returns (value, known) of boolean c under the cached model.
func (m *Machine) modelSays(c *Term) (bool, bool) {
	if m.model == nil {
		return false, false
	}
	r, ok := m.evalUnder(c, m.model, m.modelMemo)
	if !ok {
		return false, false
	}
	return r.True(), true
}

func (m *Machine) setModel(model map[*Term]*big.Int) {
	m.model = model
	m.modelMemo = map[*Term]*Term{}
}
