package main

// Environment model: sdk.Context, KV stores (ordered write list, symbolic
// keys of concrete length), prefix stores, iterators, event manager, logger.

import (
	"fmt"

	"golang.org/x/tools/go/ssa"
)

const sdkTypes = "github.com/cosmos/cosmos-sdk/types."

type kvWrite struct {
	key  []*Term
	val  Value // Slice (bytes or blob); nil = delete
	cond *Term // nil = unconditional; otherwise the write exists only where cond holds (vp.SetIf)
}

func (m *Machine) writeCond() *Term {
	if len(m.guards) == 0 {
		return nil
	}
	return m.tb.And(m.guards...)
}

func (m *Machine) matchWrite(w kvWrite, key []*Term) *Term {
	c := m.bytesEq(w.key, key)
	if w.cond != nil {
		c = m.tb.And(w.cond, c)
	}
	return c
}

type StoreData struct {
	name   string
	writes []kvWrite
	nWrite int
}

type SymStore struct {
	data   *StoreData
	prefix []*Term
}

type SymStoreKey struct{ name string }

func (k *SymStoreKey) HasMethod(n string) bool { return n == "Name" || n == "String" }
func (k *SymStoreKey) Invoke(m *Machine, method string, args []Value) Value {
	switch method {
	case "Name", "String":
		return m.mkStr(k.name)
	}
	panic(unsupported("store key method " + method))
}

type Event struct {
	val Value // the sdk.Event struct value
}

type EventLog struct{ events []Value }

type SymCtx struct {
	stores   map[string]*StoreData
	time     Value // time.Time struct value
	height   *Term
	chainID  *Str
	events   *EventLog
	headerHash Value
}

func (c *SymCtx) clone() *SymCtx {
	n := *c
	return &n
}

func (s *SymStore) HasMethod(n string) bool {
	switch n {
	case "Get", "Set", "Has", "Delete", "Iterator", "ReverseIterator", "GetStoreType", "CacheWrap", "CacheWrapWithTrace":
		return true
	}
	return false
}

func (m *Machine) keyBytes(v Value) []*Term {
	sl, ok := v.(Slice)
	if !ok {
		panic(unsupported(fmt.Sprintf("store key of type %T", v)))
	}
	if sl.blob != nil {
		panic(unsupported("store key is an opaque blob"))
	}
	return m.bytesOf(sl)
}

func (s *SymStore) full(m *Machine, key []*Term) []*Term {
	if len(s.prefix) == 0 {
		return key
	}
	out := make([]*Term, 0, len(s.prefix)+len(key))
	out = append(out, s.prefix...)
	return append(out, key...)
}

// get returns the live value for key (nil Value if absent), forking on symbolic key equality.
func (m *Machine) storeGet(d *StoreData, key []*Term) Value {
	for i := len(d.writes) - 1; i >= 0; i-- {
		w := d.writes[i]
		if len(w.key) != len(key) {
			continue
		}
		if m.decide(m.matchWrite(w, key)) {
			return w.val
		}
	}
	return nil
}

func cloneBytesValue(v Value) Value {
	if sl, ok := v.(Slice); ok && sl.blob == nil && sl.v != nil {
		nv := make([]Value, len(sl.v))
		copy(nv, sl.v)
		return Slice{v: nv}
	}
	return v
}

func (s *SymStore) Invoke(m *Machine, method string, args []Value) Value {
	switch method {
	case "Get":
		key := s.full(m, m.keyBytes(args[0]))
		if len(key) == 0 {
			panic(&goPanic{msg: "key is nil or empty"})
		}
		v := m.storeGet(s.data, key)
		if v == nil {
			return Slice{}
		}
		return cloneBytesValue(v)
	case "Has":
		key := s.full(m, m.keyBytes(args[0]))
		return m.tb.Bool(m.storeGet(s.data, key) != nil)
	case "Set":
		key := s.full(m, m.keyBytes(args[0]))
		if len(key) == 0 {
			panic(&goPanic{msg: "key is nil or empty"})
		}
		val := args[1].(Slice)
		if val.IsNil() {
			panic(&goPanic{msg: "value is nil"})
		}
		s.data.writes = append(s.data.writes, kvWrite{key: key, val: cloneBytesValue(val), cond: m.writeCond()})
		s.data.nWrite++
		return nil
	case "Delete":
		key := s.full(m, m.keyBytes(args[0]))
		s.data.writes = append(s.data.writes, kvWrite{key: key, val: nil, cond: m.writeCond()})
		s.data.nWrite++
		return nil
	case "Iterator", "ReverseIterator":
		var lo, hi []*Term
		if sl := args[0].(Slice); !sl.IsNil() {
			lo = m.bytesOf(sl)
		}
		hasHi := false
		if sl := args[1].(Slice); !sl.IsNil() {
			hi = m.bytesOf(sl)
			hasHi = true
		}
		it := m.makeIterator(s, lo, hi, hasHi, method == "ReverseIterator")
		return Iface{t: m.p.ntype("native.Iterator"), v: it}
	}
	panic(unsupported("KVStore method " + method))
}

type SymIter struct {
	keys [][]*Term // keys relative to the store's prefix
	vals []Value
	i    int
}

func (it *SymIter) HasMethod(n string) bool {
	switch n {
	case "Valid", "Next", "Key", "Value", "Close", "Error", "Domain":
		return true
	}
	return false
}

func (it *SymIter) Invoke(m *Machine, method string, args []Value) Value {
	switch method {
	case "Valid":
		return m.tb.Bool(it.i < len(it.keys))
	case "Next":
		if it.i >= len(it.keys) {
			panic(&goPanic{msg: "iterator is invalid"})
		}
		it.i++
		return nil
	case "Key":
		if it.i >= len(it.keys) {
			panic(&goPanic{msg: "iterator is invalid"})
		}
		return m.mkBytes(it.keys[it.i])
	case "Value":
		if it.i >= len(it.keys) {
			panic(&goPanic{msg: "iterator is invalid"})
		}
		return cloneBytesValue(it.vals[it.i])
	case "Close", "Error":
		return Iface{}
	}
	panic(unsupported("iterator method " + method))
}

// liveEntries resolves the write list into distinct live (key,value) pairs.
func (m *Machine) liveEntries(d *StoreData) ([][]*Term, []Value) {
	var keys [][]*Term
	var vals []Value
	for _, w := range d.writes {
		if w.cond != nil && !m.decide(w.cond) {
			continue
		}
		found := -1
		for i, k := range keys {
			if len(k) != len(w.key) {
				continue
			}
			if m.decide(m.bytesEq(k, w.key)) {
				found = i
				break
			}
		}
		if found >= 0 {
			if w.val == nil {
				keys = append(keys[:found:found], keys[found+1:]...)
				vals = append(vals[:found:found], vals[found+1:]...)
			} else {
				vals[found] = w.val
			}
		} else if w.val != nil {
			keys = append(keys, w.key)
			vals = append(vals, w.val)
		}
	}
	return keys, vals
}

func (m *Machine) makeIterator(s *SymStore, lo, hi []*Term, hasHi bool, reverse bool) *SymIter {
	// 1. keep only the writes whose key lies in the iterated range (most are excluded concretely,
	//    by a differing constant prefix byte), 2. resolve liveness among those.
	it := &SymIter{}
	np := len(s.prefix)
	sub := &StoreData{name: s.data.name}
	for _, w := range s.data.writes {
		k := w.key
		if len(k) < np {
			continue
		}
		in := m.tb.Bool(true)
		if np > 0 {
			in = m.bytesEq(k[:np], s.prefix)
		}
		rel := k[np:]
		if len(lo) > 0 {
			in = m.tb.And(in, m.bytesLess(lo, rel, true))
		}
		if hasHi {
			in = m.tb.And(in, m.bytesLess(rel, hi, false))
		}
		if in.False() || !m.decide(in) {
			continue
		}
		sub.writes = append(sub.writes, w)
	}
	keys, vals := m.liveEntries(sub)
	for i, k := range keys {
		it.keys = append(it.keys, k[np:])
		it.vals = append(it.vals, vals[i])
	}
	// insertion sort by key (forks when the order depends on symbolic bytes)
	for i := 1; i < len(it.keys); i++ {
		for j := i; j > 0; j-- {
			var less bool
			if reverse {
				less = m.decide(m.bytesLess(it.keys[j-1], it.keys[j], false))
			} else {
				less = m.decide(m.bytesLess(it.keys[j], it.keys[j-1], false))
			}
			if !less {
				break
			}
			it.keys[j], it.keys[j-1] = it.keys[j-1], it.keys[j]
			it.vals[j], it.vals[j-1] = it.vals[j-1], it.vals[j]
		}
	}
	return it
}

// prefixEnd: smallest key greater than every key with the given prefix (concrete last byte handling by fork).
func (m *Machine) storeOf(v Value) *SymStore {
	if iv, ok := v.(Iface); ok {
		v = iv.v
	}
	s, ok := v.(*SymStore)
	if !ok {
		panic(unsupported(fmt.Sprintf("store value of type %T", v)))
	}
	return s
}

// ---- event manager / logger -------------------------------------------------------

type SymEventMgr struct{ log *EventLog }

func (e *SymEventMgr) HasMethod(n string) bool { return true }
func (e *SymEventMgr) Invoke(m *Machine, method string, args []Value) Value {
	switch method {
	case "EmitEvent":
		e.log.events = append(e.log.events, copyVal(args[0]))
		return nil
	case "EmitEvents":
		for _, ev := range args[0].(Slice).v {
			e.log.events = append(e.log.events, copyVal(ev))
		}
		return nil
	case "EmitTypedEvent", "EmitTypedEvents":
		e.log.events = append(e.log.events, Struct{m.mkStr("typed-event"), Slice{}})
		return Iface{}
	case "Events":
		return Slice{v: append([]Value{}, e.log.events...)}
	case "ABCIEvents":
		return Slice{v: []Value{}}
	}
	panic(unsupported("EventManager method " + method))
}

type SymLogger struct{}

func (l *SymLogger) HasMethod(n string) bool { return true }
func (l *SymLogger) Invoke(m *Machine, method string, args []Value) Value {
	switch method {
	case "With", "Impl":
		return Iface{t: m.p.ntype("native.Logger"), v: l}
	}
	return nil
}

func registerEnv(p *Program) {
	I := p.intrinsics
	ctxOf := func(v Value) *SymCtx {
		c, ok := v.(*SymCtx)
		if !ok {
			panic(unsupported(fmt.Sprintf("sdk.Context value of type %T (only contexts made by vp.Ctx are supported)", v)))
		}
		return c
	}
	// --- vp constructors
	I[vpPath+"Ctx"] = func(m *Machine, fr *Frame, fn *ssa.Function, a []Value) Value {
		c := &SymCtx{stores: map[string]*StoreData{}, events: &EventLog{}, height: m.tb.ConstI(1, 64), chainID: m.mkStr("testchain")}
		c.time = m.timeValue(m.tb.ConstI(1_600_000_000, 64), m.tb.Const(0, 32))
		return c
	}
	I[vpPath+"StoreKey"] = func(m *Machine, fr *Frame, fn *ssa.Function, a []Value) Value {
		return Iface{t: m.p.ntype("native.StoreKey"), v: &SymStoreKey{name: cstr(a[0])}}
	}
	I[vpPath+"WithBlockTime"] = func(m *Machine, fr *Frame, fn *ssa.Function, a []Value) Value {
		c := ctxOf(a[0]).clone()
		c.time = m.timeValue(a[1].(*Term), a[2].(*Term))
		return c
	}
	I[vpPath+"WithBlockHeight"] = func(m *Machine, fr *Frame, fn *ssa.Function, a []Value) Value {
		c := ctxOf(a[0]).clone()
		c.height = a[1].(*Term)
		return c
	}
	I[vpPath+"NumEvents"] = func(m *Machine, fr *Frame, fn *ssa.Function, a []Value) Value {
		c := ctxOf(a[0])
		typ := a[1].(*Str)
		n := 0
		for _, ev := range c.events.events {
			et := ev.(Struct)[0].(*Str)
			if m.decide(m.bytesEq(et.b, typ.b)) {
				n++
			}
		}
		return m.tb.ConstI(int64(n), 64)
	}
	I[vpPath+"EventAttr"] = func(m *Machine, fr *Frame, fn *ssa.Function, a []Value) Value {
		// EventAttr(ctx, type, k, key) -> value of attribute `key` of the k-th event of that type ("" if none)
		c := ctxOf(a[0])
		typ := a[1].(*Str)
		k := m.concreteInt(a[2], "event index")
		key := a[3].(*Str)
		n := 0
		for _, ev := range c.events.events {
			st := ev.(Struct)
			if !m.decide(m.bytesEq(st[0].(*Str).b, typ.b)) {
				continue
			}
			if n == k {
				for _, at := range st[1].(Slice).v {
					as := at.(Struct)
					if m.decide(m.bytesEq(as[0].(*Str).b, key.b)) {
						return as[1]
					}
				}
				return &Str{}
			}
			n++
		}
		return &Str{}
	}
	I[vpPath+"StoreWrites"] = func(m *Machine, fr *Frame, fn *ssa.Function, a []Value) Value {
		c := ctxOf(a[0])
		d := c.stores[cstr(a[1])]
		if d == nil {
			return m.tb.ConstI(0, 64)
		}
		return m.tb.ConstI(int64(d.nWrite), 64)
	}
	// --- sdk.Context
	I["("+sdkTypes+"Context).KVStore"] = func(m *Machine, fr *Frame, fn *ssa.Function, a []Value) Value {
		c := ctxOf(a[0])
		k, ok := a[1].(Iface).v.(*SymStoreKey)
		if !ok {
			panic(unsupported("KVStore with a store key not made by vp.StoreKey"))
		}
		d := c.stores[k.name]
		if d == nil {
			d = &StoreData{name: k.name}
			c.stores[k.name] = d
		}
		return Iface{t: m.p.ntype("native.KVStore"), v: &SymStore{data: d}}
	}
	I["("+sdkTypes+"Context).BlockTime"] = func(m *Machine, fr *Frame, fn *ssa.Function, a []Value) Value {
		return copyVal(ctxOf(a[0]).time)
	}
	I["("+sdkTypes+"Context).BlockHeight"] = func(m *Machine, fr *Frame, fn *ssa.Function, a []Value) Value {
		return ctxOf(a[0]).height
	}
	I["("+sdkTypes+"Context).ChainID"] = func(m *Machine, fr *Frame, fn *ssa.Function, a []Value) Value {
		return ctxOf(a[0]).chainID
	}
	I["("+sdkTypes+"Context).EventManager"] = func(m *Machine, fr *Frame, fn *ssa.Function, a []Value) Value {
		return Iface{t: m.p.ntype("native.EventManager"), v: &SymEventMgr{log: ctxOf(a[0]).events}}
	}
	I["("+sdkTypes+"Context).Logger"] = func(m *Machine, fr *Frame, fn *ssa.Function, a []Value) Value {
		return Iface{t: m.p.ntype("native.Logger"), v: &SymLogger{}}
	}
	I["("+sdkTypes+"Context).WithBlockHeight"] = func(m *Machine, fr *Frame, fn *ssa.Function, a []Value) Value {
		c := ctxOf(a[0]).clone()
		c.height = a[1].(*Term)
		return c
	}
	I["("+sdkTypes+"Context).WithBlockTime"] = func(m *Machine, fr *Frame, fn *ssa.Function, a []Value) Value {
		c := ctxOf(a[0]).clone()
		c.time = copyVal(a[1])
		return c
	}
	I["("+sdkTypes+"Context).WithEventManager"] = func(m *Machine, fr *Frame, fn *ssa.Function, a []Value) Value {
		return a[0]
	}
	// CacheContext: a branch of every store (copy of the write list) and of the event log; the
	// returned function writes the branch back into the parent's stores
	I["("+sdkTypes+"Context).CacheContext"] = func(m *Machine, fr *Frame, fn *ssa.Function, a []Value) Value {
		parent := ctxOf(a[0])
		child := parent.clone()
		child.stores = map[string]*StoreData{}
		for name, sd := range parent.stores {
			cp := *sd
			cp.writes = append([]kvWrite(nil), sd.writes...)
			child.stores[name] = &cp
		}
		child.events = &EventLog{events: append([]Value(nil), parent.events.events...)}
		write := &NativeFn{name: "cacheContext.write", call: func(m *Machine, _ []Value) Value {
			for name, sd := range child.stores {
				if psd, ok := parent.stores[name]; ok {
					*psd = *sd
				} else {
					parent.stores[name] = sd
				}
			}
			parent.events.events = child.events.events
			return nil
		}}
		return Tuple{child, write}
	}
	I["("+sdkTypes+"Context).HeaderHash"] = func(m *Machine, fr *Frame, fn *ssa.Function, a []Value) Value {
		return m.mkByteSliceConst(make([]byte, 32))
	}
	I[sdkTypes+"UnwrapSDKContext"] = func(m *Machine, fr *Frame, fn *ssa.Function, a []Value) Value {
		iv := a[0].(Iface)
		return ctxOf(iv.v)
	}
	I[sdkTypes+"WrapSDKContext"] = func(m *Machine, fr *Frame, fn *ssa.Function, a []Value) Value {
		return Iface{t: m.p.ntype("native.Context"), v: ctxOf(a[0])}
	}
	// --- stores
	I["cosmossdk.io/store/prefix.NewStore"] = func(m *Machine, fr *Frame, fn *ssa.Function, a []Value) Value {
		parent := m.storeOf(a[0])
		pre := m.bytesOf(a[1].(Slice))
		np := append(append([]*Term{}, parent.prefix...), pre...)
		// prefix.Store is a struct type; methods are called statically on it
		return &SymStore{data: parent.data, prefix: np}
	}
	for _, meth := range []string{"Get", "Set", "Has", "Delete", "Iterator", "ReverseIterator"} {
		meth := meth
		I["(cosmossdk.io/store/prefix.Store)."+meth] = func(m *Machine, fr *Frame, fn *ssa.Function, a []Value) Value {
			return a[0].(*SymStore).Invoke(m, meth, a[1:])
		}
	}
	I["cosmossdk.io/store/types.KVStorePrefixIterator"] = func(m *Machine, fr *Frame, fn *ssa.Function, a []Value) Value {
		s := m.storeOf(a[0])
		pre := m.bytesOf(a[1].(Slice))
		sub := &SymStore{data: s.data, prefix: append(append([]*Term{}, s.prefix...), pre...)}
		it := m.makeIterator(sub, nil, nil, false, false)
		// keys returned by a prefix iterator include the iterator prefix (but not the store's own prefix)
		for i := range it.keys {
			it.keys[i] = append(append([]*Term{}, pre...), it.keys[i]...)
		}
		return Iface{t: m.p.ntype("native.Iterator"), v: it}
	}
	I["cosmossdk.io/store/types.KVStoreReversePrefixIterator"] = func(m *Machine, fr *Frame, fn *ssa.Function, a []Value) Value {
		s := m.storeOf(a[0])
		pre := m.bytesOf(a[1].(Slice))
		sub := &SymStore{data: s.data, prefix: append(append([]*Term{}, s.prefix...), pre...)}
		it := m.makeIterator(sub, nil, nil, false, true)
		for i := range it.keys {
			it.keys[i] = append(append([]*Term{}, pre...), it.keys[i]...)
		}
		return Iface{t: m.p.ntype("native.Iterator"), v: it}
	}
}

// timeValue builds a time.Time struct value {wall, ext, loc} for Unix (sec, nsec), UTC, no monotonic reading.
func (m *Machine) timeValue(sec, nsec *Term) Value {
	const unixToInternal = 62135596800
	wall := m.tb.Zext(nsec, 64)
	ext := m.tb.Add(sec, m.tb.ConstI(unixToInternal, 64))
	return Struct{wall, ext, (*Value)(nil)}
}
