package main

import (
	"encoding/json"
	"flag"
	"fmt"
	"go/constant"
	"os"
	"regexp"
	"runtime/pprof"
	"sort"
	"strings"
	"time"

	"golang.org/x/tools/go/ssa"
)

type RunReport struct {
	Group      string
	Repo       string
	LoadSecs   float64
	Entries    []*EntryReport
	FuncsUsed  map[string]int // SSA-executed functions (name -> instruction count)
	Intrinsics []string
	InitLog    []string
	WallSecs   float64
	Error      string
}

func main() {
	repo := flag.String("repo", "/repo", "repository root")
	verif := flag.String("verif", "/verif", "verification root (holds vp/ and harness/)")
	group := flag.String("group", "", "harness group (directory under harness/)")
	entries := flag.String("entries", "^H_", "regexp selecting harness entry functions")
	out := flag.String("out", "", "report JSON path")
	workers := flag.Int("workers", 16, "parallel workers")
	timeout := flag.Int("timeout", 20000, "solver timeout per query (ms)")
	maxPaths := flag.Int("maxpaths", 200000, "path budget per entry")
	unwind := flag.Int("unwind", 12, "symbolic loop iterations per loop before the unwinding assertion fails")
	trace := flag.Bool("trace", false, "trace instructions (single worker)")
	solver := flag.String("solver", "z3 -in", "solver command")
	mapperm := flag.Bool("mapperm", false, "explore all map iteration orders")
	maprev := flag.Bool("maprev", false, "explore two iteration orders per map range: as built and reversed (flips the relative order of every pair)")
	twice := flag.Bool("twice", false, "execute every entry twice per path with the same inputs and require the same outcomes (2-safety, C20)")
	deadline := flag.Int("deadline", 0, "seconds per entry before truncation (0 = none)")
	cpuprof := flag.String("cpuprofile", "", "write a CPU profile")
	emit := flag.String("emit-stubs", "", "write the group's patched dependency sources to this directory, print the overlay mapping as JSON and exit")
	flag.Parse()
	if *emit != "" {
		env := append(os.Environ(), "GOFLAGS=-mod=mod", "GOPROXY=off", "GOSUMDB=off", "GOTOOLCHAIN=local")
		m, err := emitStubs(*repo, *verif, *group, *emit, env)
		if err != nil {
			fmt.Fprintln(os.Stderr, "emit-stubs:", err)
			os.Exit(3)
		}
		b, _ := json.Marshal(m)
		os.Stdout.Write(b)
		return
	}
	if *cpuprof != "" {
		f, _ := os.Create(*cpuprof)
		pprof.StartCPUProfile(f)
		defer pprof.StopCPUProfile()
	}

	t0 := time.Now()
	rr := &RunReport{Group: *group, Repo: *repo, FuncsUsed: map[string]int{}}
	write := func() {
		rr.WallSecs = time.Since(t0).Seconds()
		b, _ := json.MarshalIndent(rr, "", " ")
		if *out != "" {
			os.WriteFile(*out, b, 0o644)
		} else {
			os.Stdout.Write(b)
		}
	}
	p, err := LoadProgram(*repo, *verif, *group)
	if err != nil {
		rr.Error = err.Error()
		write()
		fmt.Fprintln(os.Stderr, "load error:", err)
		os.Exit(3)
	}
	p.unwind = *unwind
	rr.LoadSecs = p.loadSecs
	if *trace {
		p.trace = true
		p.traceW = os.Stderr
		*workers = 1
	}
	re := regexp.MustCompile(*entries)
	var fns []*ssa.Function
	for name, mem := range p.harness.Members {
		if f, ok := mem.(*ssa.Function); ok && strings.HasPrefix(name, "H_") && re.MatchString(name) {
			fns = append(fns, f)
		}
	}
	sort.Slice(fns, func(i, j int) bool { return fns[i].Name() < fns[j].Name() })
	for _, f := range fns {
		cfg := ExploreCfg{Workers: *workers, SolverCmd: strings.Fields(*solver), TimeoutMs: *timeout, MaxPaths: *maxPaths, MapPerm: *mapperm || *maprev, MapRev: *maprev && !*mapperm, Twice: *twice}
		if *deadline > 0 {
			cfg.Deadline = time.Now().Add(time.Duration(*deadline) * time.Second)
		}
		rep := p.Explore(f, cfg)
		rep.Expected = p.expectedLabels(f)
		rr.Entries = append(rr.Entries, rep)
		fmt.Fprintf(os.Stderr, "%-44s paths=%-6d outcomes=%v queries=%d (unknown %d) solver=%.1fs wall=%.1fs\n", rep.Entry, rep.Paths, rep.Outcomes, rep.Queries, rep.QUnknown, rep.SolverSecs, rep.WallSecs)
		for _, k := range sortedKeys(rep.Unsupported) {
			fmt.Fprintf(os.Stderr, "    ! %dx %s\n", rep.Unsupported[k], truncate(k, 600))
		}
		var keys []string
		for k := range rep.PerLabel {
			keys = append(keys, k)
		}
		sort.Strings(keys)
		for _, k := range keys {
			ls := rep.PerLabel[k]
			fmt.Fprintf(os.Stderr, "    %-6s %-70s holds=%d trivial=%d violated=%d unknown=%d witnessed=%d\n", ls.Kind, truncate(ls.Label, 70), ls.Holds, ls.Trivial, ls.Violated, ls.Unknown, ls.Witnessed)
		}
	}
	p.usedFuncs.Range(func(k, v interface{}) bool { rr.FuncsUsed[k.(string)] = v.(int); return true })
	p.usedIntr.Range(func(k, v interface{}) bool { rr.Intrinsics = append(rr.Intrinsics, k.(string)); return true })
	sort.Strings(rr.Intrinsics)
	rr.InitLog = p.initLog
	write()
}

// expectedLabels statically collects the constant labels of vp.Assert / vp.Note / vp.Reach
// call sites in harness functions reachable from the entry.
func (p *Program) expectedLabels(entry *ssa.Function) []string {
	seen := map[*ssa.Function]bool{}
	var out []string
	have := map[string]bool{}
	var visit func(f *ssa.Function)
	visit = func(f *ssa.Function) {
		if f == nil || seen[f] || f.Blocks == nil {
			return
		}
		seen[f] = true
		for _, b := range f.Blocks {
			for _, in := range b.Instrs {
				switch in := in.(type) {
				case *ssa.MakeClosure:
					if fn, ok := in.Fn.(*ssa.Function); ok {
						visit(fn)
					}
				}
				call, ok := in.(ssa.CallInstruction)
				if !ok {
					continue
				}
				callee := call.Common().StaticCallee()
				if callee == nil {
					continue
				}
				name := callee.String()
				if strings.HasPrefix(name, vpPath) {
					kind := ""
					idx := 1
					switch strings.TrimPrefix(name, vpPath) {
					case "Assert":
						kind = "assert"
					case "Note":
						kind = "note"
					case "Reach":
						kind = "reach"
						idx = 0
					}
					if kind != "" {
						if c, ok := call.Common().Args[idx].(*ssa.Const); ok && c.Value != nil {
							k := kind + "|" + constant.StringVal(c.Value)
							if !have[k] {
								have[k] = true
								out = append(out, k)
							}
						}
					}
					continue
				}
				if callee.Pkg == p.harness || (callee.Parent() != nil && callee.Parent().Pkg == p.harness) {
					visit(callee)
				}
			}
		}
		for _, af := range f.AnonFuncs {
			visit(af)
		}
	}
	visit(entry)
	sort.Strings(out)
	return out
}
