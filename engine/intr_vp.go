package main

// Intrinsics for the harness API (package vp): nondeterministic inputs,
// assumptions, assertions, reachability witnesses.

import (
	"fmt"
	"sort"
	"strings"
	"sync"

	"golang.org/x/tools/go/ssa"
)

const vpPath = "github.com/bianjieai/tibc-go/zzverif/vp."

func (m *Machine) record(in InputRec) { m.inputs = append(m.inputs, in) }

func cstr(v Value) string {
	s := v.(*Str)
	if !s.IsConcrete() {
		panic(unsupported("vp call with a non-constant name/label"))
	}
	return s.Concrete()
}

func (m *Machine) uniqueName(name string) string {
	n := 0
	for _, in := range m.inputs {
		if in.Name == name || strings.HasPrefix(in.Name, name+"#") {
			n++
		}
	}
	if n == 0 {
		return name
	}
	return fmt.Sprintf("%s#%d", name, n)
}

// alphabetConstraint: byte b is one of the characters of alpha ("" = any byte).
func (m *Machine) alphabetConstraint(b *Term, alpha string) *Term {
	if alpha == "" {
		return m.tb.Bool(true)
	}
	cs := []byte(alpha)
	sort.Slice(cs, func(i, j int) bool { return cs[i] < cs[j] })
	var alts []*Term
	for i := 0; i < len(cs); {
		j := i
		for j+1 < len(cs) && (cs[j+1] == cs[j]+1 || cs[j+1] == cs[j]) {
			j++
		}
		if cs[i] == cs[j] {
			alts = append(alts, m.tb.Eq(b, m.tb.Const(uint64(cs[i]), 8)))
		} else {
			alts = append(alts, m.tb.And(m.tb.Ule(m.tb.Const(uint64(cs[i]), 8), b), m.tb.Ule(b, m.tb.Const(uint64(cs[j]), 8))))
		}
		i = j + 1
	}
	return m.tb.Or(alts...)
}

func (m *Machine) symBytes(name string, min, max int, alpha string, kind string) []*Term {
	name = m.uniqueName(name)
	n := min + m.choose(max-min+1)
	ts := make([]*Term, n)
	for i := range ts {
		ts[i] = m.tb.Var(fmt.Sprintf("%s[%d/%d]", name, i, n), 8)
		m.addAxiom(m.alphabetConstraint(ts[i], alpha))
	}
	m.record(InputRec{Name: name, Kind: kind, Terms: ts})
	return ts
}

func (m *Machine) obligation(kind, label string, c *Term, fr *Frame) {
	ob := Obligation{Label: label, Kind: kind}
	if fr != nil {
		ob.Pos = fr.fn.Name()
	}
	tb := m.tb
	if m.twice && kind != "note" {
		if m.run != 2 {
			m.events1 = append(m.events1, c20event{kind: kind, label: label, cond: c})
		} else {
			// repeated execution: the same event must occur, with the same truth value
			if m.evIdx >= len(m.events1) || m.events1[m.evIdx].kind != kind || m.events1[m.evIdx].label != label {
				m.c20mismatch("the repeated execution takes a different course at " + kind + " '" + label + "'")
				return
			}
			first := m.events1[m.evIdx]
			m.evIdx++
			if kind == "assert" {
				same := tb.Eq(first.cond, c)
				ob2 := Obligation{Label: "C20.1 repeated execution in the same process (other map order, other clock): same outcome", Kind: "assert"}
				if same.True() {
					ob2.Verdict, ob2.Trivial = "holds", true
				} else {
					v, model := m.sol.CheckHard(tb, []*Term{tb.Not(same)}, m.inputTerms())
					switch v {
					case Unsat:
						ob2.Verdict = "holds"
					case Sat:
						ob2.Verdict = "violated"
						ob2.Model = m.extractModel(model)
					default:
						ob2.Verdict = "unknown"
					}
				}
				m.res.Obligations = append(m.res.Obligations, ob2)
			}
			return
		}
	}
	switch kind {
	case "reach":
		// the path condition is satisfiable by construction; produce a witness model
		v, model := m.sol.Check(tb, nil, m.inputTerms())
		if v == Sat {
			ob.Verdict = "witnessed"
			ob.Model = m.extractModel(model)
		} else {
			ob.Verdict = "unknown"
		}
		m.res.Obligations = append(m.res.Obligations, ob)
		return
	}
	if c.True() {
		ob.Verdict = "holds"
		ob.Trivial = true
		m.res.Obligations = append(m.res.Obligations, ob)
		return
	}
	nc := tb.Not(c)
	v, model := m.sol.CheckHard(tb, []*Term{nc}, m.inputTerms())
	switch v {
	case Unsat:
		ob.Verdict = "holds"
		if m.curRep != nil {
			m.curMu.Lock()
			if _, ok := m.curRep.Scripts[kind+"|"+label]; !ok && len(m.curRep.Scripts) < 64 {
				m.curRep.Scripts[kind+"|"+label] = m.sol.Standalone(tb, []*Term{nc})
			}
			m.curMu.Unlock()
		}
	case Sat:
		ob.Verdict = "violated"
		ob.Model = m.extractModel(model)
		ob.Path = append([]int(nil), m.decisions...)
	default:
		ob.Verdict = "unknown"
		if m.curRep != nil {
			m.curMu.Lock()
			if _, ok := m.curRep.Scripts["unknown:"+kind+"|"+label]; !ok && len(m.curRep.Scripts) < 64 {
				m.curRep.Scripts["unknown:"+kind+"|"+label] = m.sol.Standalone(tb, []*Term{nc})
			}
			m.curMu.Unlock()
		}
	}
	m.res.Obligations = append(m.res.Obligations, ob)
	// the path continues WITHOUT assuming the assertion: later obligations are decided independently
}

var vpOnce sync.Once

func registerVP(p *Program) {
	isInput := map[string]bool{"Bool": true, "Byte": true, "Uint64": true, "Uint32": true, "Int64": true, "Choice": true, "String": true, "Bytes": true}
	reg := func(name string, f Intrinsic) {
		if !isInput[name] {
			p.intrinsics[vpPath+name] = f
			return
		}
		// second execution of a -twice run: the same inputs, in the same order
		p.intrinsics[vpPath+name] = func(m *Machine, fr *Frame, fn *ssa.Function, a []Value) Value {
			if m.run != 2 {
				return f(m, fr, fn, a)
			}
			if m.inputIdx >= m.nInputs1 {
				m.c20mismatch("the repeated execution asks for more inputs than the first one")
			}
			rec := m.inputs[m.inputIdx]
			m.inputIdx++
			switch rec.Kind {
			case "string":
				return &Str{b: rec.Terms}
			case "bytes":
				return m.mkBytes(rec.Terms)
			}
			return rec.Terms[0]
		}
	}
	reg("Bool", func(m *Machine, fr *Frame, fn *ssa.Function, a []Value) Value {
		name := m.uniqueName(cstr(a[0]))
		t := m.tb.Var(name, 0)
		m.record(InputRec{Name: name, Kind: "bool", Terms: []*Term{t}})
		return t
	})
	reg("Byte", func(m *Machine, fr *Frame, fn *ssa.Function, a []Value) Value {
		name := m.uniqueName(cstr(a[0]))
		t := m.tb.Var(name, 8)
		m.record(InputRec{Name: name, Kind: "u8", Terms: []*Term{t}})
		return t
	})
	reg("Uint64", func(m *Machine, fr *Frame, fn *ssa.Function, a []Value) Value {
		name := m.uniqueName(cstr(a[0]))
		t := m.tb.Var(name, 64)
		m.record(InputRec{Name: name, Kind: "u64", Terms: []*Term{t}})
		return t
	})
	reg("Uint32", func(m *Machine, fr *Frame, fn *ssa.Function, a []Value) Value {
		name := m.uniqueName(cstr(a[0]))
		t := m.tb.Var(name, 32)
		m.record(InputRec{Name: name, Kind: "u32", Terms: []*Term{t}})
		return t
	})
	reg("Int64", func(m *Machine, fr *Frame, fn *ssa.Function, a []Value) Value {
		name := m.uniqueName(cstr(a[0]))
		t := m.tb.Var(name, 64)
		m.record(InputRec{Name: name, Kind: "i64", Terms: []*Term{t}})
		return t
	})
	reg("Choice", func(m *Machine, fr *Frame, fn *ssa.Function, a []Value) Value {
		name := m.uniqueName(cstr(a[0]))
		n := m.concreteInt(a[1], "choice arity")
		k := m.choose(n)
		t := m.tb.ConstI(int64(k), 64)
		m.record(InputRec{Name: name, Kind: "choice", Terms: []*Term{t}, N: n})
		return t
	})
	reg("String", func(m *Machine, fr *Frame, fn *ssa.Function, a []Value) Value {
		ts := m.symBytes(cstr(a[0]), m.concreteInt(a[1], "min"), m.concreteInt(a[2], "max"), cstr(a[3]), "string")
		return &Str{b: ts}
	})
	reg("Bytes", func(m *Machine, fr *Frame, fn *ssa.Function, a []Value) Value {
		ts := m.symBytes(cstr(a[0]), m.concreteInt(a[1], "min"), m.concreteInt(a[2], "max"), "", "bytes")
		return m.mkBytes(ts)
	})
	reg("Assume", func(m *Machine, fr *Frame, fn *ssa.Function, a []Value) Value {
		m.assume(a[0].(*Term))
		return nil
	})
	reg("Assert", func(m *Machine, fr *Frame, fn *ssa.Function, a []Value) Value {
		m.obligation("assert", cstr(a[1])+m.labelSuffix, a[0].(*Term), fr)
		return nil
	})
	reg("Region", func(m *Machine, fr *Frame, fn *ssa.Function, a []Value) Value {
		m.labelSuffix = cstr(a[0])
		return nil
	})
	reg("Note", func(m *Machine, fr *Frame, fn *ssa.Function, a []Value) Value {
		m.obligation("note", cstr(a[1]), a[0].(*Term), fr)
		return nil
	})
	reg("Reach", func(m *Machine, fr *Frame, fn *ssa.Function, a []Value) Value {
		m.obligation("reach", cstr(a[0]), nil, fr)
		return nil
	})
	reg("Symbolic", func(m *Machine, fr *Frame, fn *ssa.Function, a []Value) Value {
		return m.tb.Bool(true)
	})
	reg("Panics", func(m *Machine, fr *Frame, fn *ssa.Function, a []Value) (res Value) {
		defer func() {
			if r := recover(); r != nil {
				if _, ok := r.(*goPanic); ok {
					res = m.tb.Bool(true)
					return
				}
				panic(r)
			}
		}()
		saveDepth := m.depth
		defer func() { m.depth = saveDepth }()
		m.call(fr, a[0], nil)
		return m.tb.Bool(false)
	})
}
