package main

// 2-safety support (C20): see runPath. The first execution records its assert / reach events;
// the second one must reproduce them.

type c20event struct {
	kind, label string
	cond        *Term
}

func (m *Machine) c20mismatch(msg string) {
	ob := Obligation{Label: "C20.1 repeated execution in the same process (other map order, other clock): same course of events", Kind: "assert"}
	v, model := m.sol.CheckHard(m.tb, nil, m.inputTerms())
	switch v {
	case Sat:
		ob.Verdict = "violated"
		ob.Model = m.extractModel(model)
	case Unsat:
		// the path was kept because a branch could not be decided in time; it is infeasible
		panic(pathEnd{kind: "assume"})
	default:
		ob.Verdict = "unknown"
	}
	ob.Pos = msg
	m.res.Obligations = append(m.res.Obligations, ob)
	panic(pathEnd{kind: "done"})
}
