package main

// math/big.Int as a 256-bit two's-complement term. The cell a *big.Int points to holds either
// the zero struct (value 0) or a *BigIntObj. Multiplication and the like are exact only while
// the mathematical result fits; the intrinsics check that (fork + unsupported on overflow), so
// a bound violation is reported instead of silently wrapping.

import (
	"fmt"
	"math/big"

	"golang.org/x/tools/go/ssa"
)

const bigW = 256

type BigIntObj struct{ v *Term }

func (b *BigIntObj) cloneNative(cm *cloneMemo) interface{} { return &BigIntObj{v: b.v} }

func (m *Machine) bigOf(v Value) *Term {
	p, ok := v.(*Value)
	if !ok {
		panic(unsupported(fmt.Sprintf("big.Int operand of type %T", v)))
	}
	if p == nil {
		panic(&goPanic{msg: "nil pointer dereference (*big.Int)"})
	}
	switch x := (*p).(type) {
	case *BigIntObj:
		return x.v
	case Struct:
		// zero value big.Int{}
		return m.tb.Const(0, bigW)
	}
	panic(unsupported(fmt.Sprintf("big.Int cell holds %T", *p)))
}

func (m *Machine) bigSet(v Value, t *Term) Value {
	p := v.(*Value)
	if p == nil {
		panic(&goPanic{msg: "nil pointer dereference (*big.Int)"})
	}
	*p = &BigIntObj{v: t}
	return p
}

func (m *Machine) bigNew(t *Term) Value {
	var cell Value = &BigIntObj{v: t}
	return &cell
}

// fits: the signed value of t fits in n bits (as signed)
func (m *Machine) bigFits(t *Term, n int) *Term {
	tb := m.tb
	lo := tb.ConstBig(new(big.Int).Neg(new(big.Int).Lsh(big.NewInt(1), uint(n-1))), bigW)
	hi := tb.ConstBig(new(big.Int).Lsh(big.NewInt(1), uint(n-1)), bigW)
	return tb.And(tb.Sle(lo, t), tb.Slt(t, hi))
}

func registerBig(p *Program) {
	I := p.intrinsics
	const B = "(*math/big.Int)."
	I["math/big.NewInt"] = func(m *Machine, fr *Frame, fn *ssa.Function, a []Value) Value {
		return m.bigNew(m.tb.Sext(a[0].(*Term), bigW))
	}
	I[B+"SetUint64"] = func(m *Machine, fr *Frame, fn *ssa.Function, a []Value) Value {
		return m.bigSet(a[0], m.tb.Zext(a[1].(*Term), bigW))
	}
	I[B+"SetInt64"] = func(m *Machine, fr *Frame, fn *ssa.Function, a []Value) Value {
		return m.bigSet(a[0], m.tb.Sext(a[1].(*Term), bigW))
	}
	I[B+"Set"] = func(m *Machine, fr *Frame, fn *ssa.Function, a []Value) Value {
		return m.bigSet(a[0], m.bigOf(a[1]))
	}
	I[B+"SetBytes"] = func(m *Machine, fr *Frame, fn *ssa.Function, a []Value) Value {
		bs := m.bytesArg(a[1])
		if len(bs) > 31 {
			// 32 bytes: must stay below 2^255 to remain a non-negative 256-bit value
			if len(bs) > 32 {
				panic(unsupported("big.Int.SetBytes of more than 32 bytes"))
			}
			if !m.decide(m.tb.Ult(bs[0], m.tb.Const(0x80, 8))) {
				panic(unsupported("big.Int.SetBytes value >= 2^255 (outside the 256-bit model)"))
			}
		}
		if len(bs) == 0 {
			return m.bigSet(a[0], m.tb.Const(0, bigW))
		}
		return m.bigSet(a[0], m.tb.Zext(m.tb.Concat(bs...), bigW))
	}
	I[B+"Bytes"] = func(m *Machine, fr *Frame, fn *ssa.Function, a []Value) Value {
		t := m.bigOf(a[0])
		tb := m.tb
		if m.decide(tb.Slt(t, tb.Const(0, bigW))) {
			t = tb.Neg(t)
		}
		// minimal big-endian encoding: fork on the byte length
		for n := 0; n <= 32; n++ {
			var fits *Term
			if n == 32 {
				fits = tb.Bool(true)
			} else {
				fits = tb.Ult(t, tb.ConstBig(new(big.Int).Lsh(big.NewInt(1), uint(8*n)), bigW))
			}
			if m.decide(fits) {
				out := make([]*Term, n)
				for i := 0; i < n; i++ {
					out[i] = tb.Extract(t, 8*(n-i)-1, 8*(n-i-1))
				}
				return m.mkBytes(out)
			}
		}
		panic("unreachable")
	}
	I[B+"Cmp"] = func(m *Machine, fr *Frame, fn *ssa.Function, a []Value) Value {
		x, y := m.bigOf(a[0]), m.bigOf(a[1])
		tb := m.tb
		return tb.Ite(tb.Slt(x, y), tb.ConstI(-1, 64), tb.Ite(tb.Eq(x, y), tb.ConstI(0, 64), tb.ConstI(1, 64)))
	}
	I[B+"Sign"] = func(m *Machine, fr *Frame, fn *ssa.Function, a []Value) Value {
		x := m.bigOf(a[0])
		tb := m.tb
		z := tb.Const(0, bigW)
		return tb.Ite(tb.Slt(x, z), tb.ConstI(-1, 64), tb.Ite(tb.Eq(x, z), tb.ConstI(0, 64), tb.ConstI(1, 64)))
	}
	I[B+"Uint64"] = func(m *Machine, fr *Frame, fn *ssa.Function, a []Value) Value {
		return m.tb.Extract(m.bigOf(a[0]), 63, 0)
	}
	I[B+"Int64"] = I[B+"Uint64"]
	I[B+"IsUint64"] = func(m *Machine, fr *Frame, fn *ssa.Function, a []Value) Value {
		x := m.bigOf(a[0])
		tb := m.tb
		return tb.And(tb.Sle(tb.Const(0, bigW), x), tb.Slt(x, tb.ConstBig(new(big.Int).Lsh(big.NewInt(1), 64), bigW)))
	}
	bin := func(op Op, guardBits int) Intrinsic {
		return func(m *Machine, fr *Frame, fn *ssa.Function, a []Value) Value {
			x, y := m.bigOf(a[1]), m.bigOf(a[2])
			tb := m.tb
			if guardBits > 0 {
				if !m.decide(tb.And(m.bigFits(x, guardBits), m.bigFits(y, guardBits))) {
					panic(unsupported("big.Int arithmetic outside the 256-bit model (operand too large)"))
				}
			}
			return m.bigSet(a[0], tb.bin(op, x, y))
		}
	}
	I[B+"Add"] = bin(OpAdd, 254)
	I[B+"Sub"] = bin(OpSub, 254)
	I[B+"Mul"] = bin(OpMul, 127)
	I[B+"Div"] = func(m *Machine, fr *Frame, fn *ssa.Function, a []Value) Value {
		x, y := m.bigOf(a[1]), m.bigOf(a[2])
		tb := m.tb
		if m.decide(tb.Eq(y, tb.Const(0, bigW))) {
			panic(&goPanic{msg: "division by zero"})
		}
		// Euclidean division equals truncated division for a non-negative dividend and positive divisor
		if !m.decide(tb.And(tb.Sle(tb.Const(0, bigW), x), tb.Slt(tb.Const(0, bigW), y))) {
			// general case: q = sdiv, adjust when remainder negative
			q := tb.bin(OpSDiv, x, y)
			r := tb.bin(OpSRem, x, y)
			adj := tb.Ite(tb.Slt(r, tb.Const(0, bigW)), tb.Ite(tb.Slt(tb.Const(0, bigW), y), tb.ConstI(-1, bigW), tb.ConstI(1, bigW)), tb.Const(0, bigW))
			return m.bigSet(a[0], tb.Add(q, adj))
		}
		return m.bigSet(a[0], tb.bin(OpUDiv, x, y))
	}
	I[B+"Mod"] = func(m *Machine, fr *Frame, fn *ssa.Function, a []Value) Value {
		x, y := m.bigOf(a[1]), m.bigOf(a[2])
		tb := m.tb
		if !m.decide(tb.And(tb.Sle(tb.Const(0, bigW), x), tb.Slt(tb.Const(0, bigW), y))) {
			panic(unsupported("big.Int.Mod with negative operands"))
		}
		return m.bigSet(a[0], tb.bin(OpURem, x, y))
	}
	I[B+"Neg"] = func(m *Machine, fr *Frame, fn *ssa.Function, a []Value) Value {
		return m.bigSet(a[0], m.tb.Neg(m.bigOf(a[1])))
	}
	I[B+"Exp"] = func(m *Machine, fr *Frame, fn *ssa.Function, a []Value) Value {
		x, y := m.bigOf(a[1]), m.bigOf(a[2])
		if !x.IsConst() || !y.IsConst() {
			panic(unsupported("big.Int.Exp with symbolic operands"))
		}
		var mod *big.Int
		if p, ok := a[3].(*Value); ok && p != nil {
			mt := m.bigOf(a[3])
			if !mt.IsConst() {
				panic(unsupported("big.Int.Exp with symbolic modulus"))
			}
			mod = signedVal(mt.val, bigW)
		}
		r := new(big.Int).Exp(signedVal(x.val, bigW), signedVal(y.val, bigW), mod)
		return m.bigSet(a[0], m.tb.ConstBig(r, bigW))
	}
	I[B+"SetString"] = func(m *Machine, fr *Frame, fn *ssa.Function, a []Value) Value {
		s := m.strArg(a[1])
		if !s.IsConcrete() {
			// symbolic decimal digits (at most 19): value = sum of digits
			m.checkTaint(s)
			if m.concreteInt(a[2], "base") != 10 || len(s.b) == 0 || len(s.b) > 19 {
				panic(unsupported("big.Int.SetString of a symbolic string (only 1..19 decimal digits)"))
			}
			tb := m.tb
			sum := tb.Const(0, bigW)
			for _, c := range s.b {
				if !m.decide(tb.And(tb.Ule(tb.Const('0', 8), c), tb.Ule(c, tb.Const('9', 8)))) {
					return Tuple{(*Value)(nil), tb.Bool(false)}
				}
				sum = tb.Add(tb.Mul(sum, tb.Const(10, bigW)), tb.Zext(tb.Sub(c, tb.Const('0', 8)), bigW))
			}
			return Tuple{m.bigSet(a[0], sum), tb.Bool(true)}
		}
		r, ok := new(big.Int).SetString(s.Concrete(), m.concreteInt(a[2], "base"))
		if !ok {
			return Tuple{(*Value)(nil), m.tb.Bool(false)}
		}
		return Tuple{m.bigSet(a[0], m.tb.ConstBig(r, bigW)), m.tb.Bool(true)}
	}
	I[B+"String"] = func(m *Machine, fr *Frame, fn *ssa.Function, a []Value) Value {
		if p, ok := a[0].(*Value); ok && p == nil {
			return m.mkStr("<nil>")
		}
		x := m.bigOf(a[0])
		if x.IsConst() {
			return m.mkStr(signedVal(x.val, bigW).String())
		}
		return &Str{b: m.mkStr("<big>").b, tainted: true}
	}
	I[B+"BitLen"] = func(m *Machine, fr *Frame, fn *ssa.Function, a []Value) Value {
		x := m.bigOf(a[0])
		if !x.IsConst() {
			panic(unsupported("big.Int.BitLen of a symbolic value"))
		}
		return m.tb.ConstI(int64(signedVal(x.val, bigW).BitLen()), 64)
	}
}
