package main

// Machine: one symbolic execution of a harness entry along one path
// (decision-trace re-execution: every path starts from scratch and follows a
// prefix of recorded branch decisions, so no interpreter state is ever cloned).

import (
	"fmt"
	"go/types"
	"math/big"
	"sort"
	"sync"
	"strings"

	"golang.org/x/tools/go/ssa"
)

type pathEnd struct {
	kind string // "assume", "unwind", "done"
	msg  string
}

type InputRec struct {
	Name  string
	Kind  string // bool, u8, u64, i64, choice, bytes, string
	Terms []*Term
	N     int // choice arity
}

type Obligation struct {
	Label   string
	Kind    string // assert | note | reach
	Verdict string // holds | violated | unknown | witnessed
	Pos     string
	Model   []ModelVal
	Path    []int
	Trivial bool
}

type ModelVal struct {
	Name string `json:"name"`
	Kind string `json:"kind"`
	Val  string `json:"val"` // decimal for scalars, hex for byte strings
}

type PathResult struct {
	Outcome     string // ok | assume-infeasible | unsupported | panic | unwind | engine-error
	Msg         string
	Obligations []Obligation
	Decisions   []int
	Steps       int
	Forks       int
}

type Machine struct {
	p          *Program
	tb         *TB
	sol        *Solver
	globals    map[*ssa.Global]*Value
	cloneMemo  *cloneMemo
	pc         []*Term
	prefix     []int
	decisions  []int
	depth      int
	steps      int
	isTemplate bool
	inputs     []InputRec
	res        *PathResult
	newTasks   [][]int
	hashApps   map[string][]*Term // injective UF applications, by family
	decMemo    map[*Term][]*Term
	tolerant   int
	unwind     int
	mapPerm    bool // explore map iteration orders (C20)
	mapRev     bool // only two orders per range: as built and reversed
	envTags    map[*Term]bool
	natives    map[string]interface{} // per-path engine objects (stores, ctx)
	symDecides int
	guards     []*Term // active vp.SetIf conditions (guarded store writes)
	pcSet      map[*Term]bool
	twice      bool    // 2-safety mode: the entry is executed twice per path
	run        int
	nInputs1   int
	inputIdx   int
	evIdx      int
	labelSuffix string // vp.Region: appended to the labels of the assertions that follow on this path
	events1    []c20event
	marsh      []*marshalled
	hexNib     map[*Term]*Term // hex character term -> the nibble it encodes
	curFn      string
	model      map[*Term]*big.Int // last satisfying assignment of the path condition (nil = none)
	modelMemo  map[*Term]*Term
	curRep    *EntryReport
	curMu      *sync.Mutex
}

func (p *Program) newMachine(sol *Solver, prefix []int) *Machine {
	m := &Machine{p: p, tb: NewTB(), sol: sol, globals: map[*ssa.Global]*Value{}, prefix: prefix,
		hashApps: map[string][]*Term{}, decMemo: map[*Term][]*Term{}, res: &PathResult{},
		unwind: p.unwind, natives: map[string]interface{}{}, envTags: map[*Term]bool{}}
	m.cloneMemo = newCloneMemo()
	return m
}

// addPC appends a conjunct to the path condition (and the solver scope).
func (m *Machine) addPC(c *Term) {
	if c.True() {
		return
	}
	m.pc = append(m.pc, c)
	if m.pcSet == nil {
		m.pcSet = map[*Term]bool{}
	}
	m.pcSet[c] = true
	if c.op == OpAnd {
		for _, a := range c.args {
			m.pcSet[a] = true
		}
	}
	if m.sol != nil {
		m.sol.Assert(m.tb, c)
	}
	if m.model != nil {
		if v, known := m.modelSays(c); !known || !v {
			m.model = nil
		}
	}
}

// addAxiom adds a background fact (UF injectivity, input domain).
func (m *Machine) addAxiom(c *Term) { m.addPC(c) }

func (m *Machine) decideAt(fr *Frame, instr ssa.Instruction, c *Term) bool {
	if c.IsConst() {
		return c.True()
	}
	if fr.symVisits == nil {
		fr.symVisits = map[ssa.Instruction]int{}
	}
	fr.symVisits[instr]++
	if fr.symVisits[instr] > m.unwind {
		panic(pathEnd{kind: "unwind", msg: fmt.Sprintf("UNWINDING-ASSERTION FAILED at %s (%s): more than %d symbolic iterations", m.p.pos(instr), fr.fn, m.unwind)})
	}
	return m.decide(c)
}

// decide forks on a symbolic condition; returns the branch taken on this path.
func (m *Machine) decide(c *Term) bool {
	if c.IsConst() {
		return c.True()
	}
	if m.isTemplate || m.sol == nil {
		panic(unsupported("symbolic branch in a concrete-only context"))
	}
	// a condition that is literally part of the path condition is decided without the solver; the
	// decision is NOT recorded (it is a function of earlier decisions, so replays stay aligned)
	if m.pcSet[c] {
		return true
	}
	if m.pcSet[m.tb.Not(c)] {
		return false
	}
	m.symDecides++
	idx := len(m.decisions)
	if idx < len(m.prefix) {
		take := m.prefix[idx] == 1
		m.decisions = append(m.decisions, m.prefix[idx])
		if take {
			m.addPC(c)
		} else {
			m.addPC(m.tb.Not(c))
		}
		return take
	}
	nc := m.tb.Not(c)
	var vT, vF Verdict
	val, known := m.modelSays(c)
	switch {
	case known && val:
		vT = Sat
		vF, _ = m.sol.Check(m.tb, []*Term{nc}, nil)
	case known && !val:
		vF = Sat
		var mod map[*Term]*big.Int
		vT, mod = m.sol.Check(m.tb, []*Term{c}, m.tb.leafTerms())
		if vT == Sat {
			m.setModel(mod)
		}
	default:
		var mod map[*Term]*big.Int
		vT, mod = m.sol.Check(m.tb, []*Term{c}, m.tb.leafTerms())
		if vT == Unsat {
			vF = Sat // the path condition is satisfiable, so the other side must be
			m.model = nil
		} else {
			if vT == Sat {
				m.setModel(mod)
			}
			vF, _ = m.sol.Check(m.tb, []*Term{nc}, nil)
		}
	}
	switch {
	case vT != Unsat && vF != Unsat:
		alt := append(append([]int(nil), m.decisions...), 0)
		m.newTasks = append(m.newTasks, alt)
		m.res.Forks++
		if m.curRep != nil {
			m.curMu.Lock()
			m.curRep.ForkSites[m.curFn]++
			m.curMu.Unlock()
		}
		m.decisions = append(m.decisions, 1)
		m.addPC(c)
		return true
	case vT != Unsat:
		m.decisions = append(m.decisions, 1)
		m.addPC(c)
		return true
	default:
		m.decisions = append(m.decisions, 0)
		m.addPC(nc)
		return false
	}
}

// choose is an n-way fork (vp.Choice, map orders).
func (m *Machine) choose(n int) int {
	if n <= 1 {
		return 0
	}
	idx := len(m.decisions)
	if idx < len(m.prefix) {
		m.decisions = append(m.decisions, m.prefix[idx])
		return m.prefix[idx]
	}
	for k := 1; k < n; k++ {
		alt := append(append([]int(nil), m.decisions...), k)
		m.newTasks = append(m.newTasks, alt)
		m.res.Forks++
	}
	m.decisions = append(m.decisions, 0)
	return 0
}

// assume restricts the path; an infeasible assumption ends it silently.
func (m *Machine) assume(c *Term) {
	if c.True() {
		return
	}
	if c.False() {
		panic(pathEnd{kind: "assume"})
	}
	idx := len(m.decisions)
	if idx < len(m.prefix) {
		// feasibility was established when the prefix was first explored
		m.decisions = append(m.decisions, m.prefix[idx])
		if m.prefix[idx] == 0 {
			panic(pathEnd{kind: "assume"})
		}
		m.addPC(c)
		return
	}
	if val, known := m.modelSays(c); !(known && val) {
		v, mod := m.sol.Check(m.tb, []*Term{c}, m.tb.leafTerms())
		if v == Unsat {
			m.decisions = append(m.decisions, 0)
			panic(pathEnd{kind: "assume"})
		}
		if v == Sat {
			m.setModel(mod)
		} else {
			m.model = nil
		}
	}
	m.decisions = append(m.decisions, 1)
	m.addPC(c)
}

func (m *Machine) permuteMapOrder(keys, vals []Value) {
	if !m.mapPerm || len(keys) < 2 {
		return
	}
	n := len(keys)
	if m.mapRev {
		if m.choose(2) == 1 {
			for i, j := 0, n-1; i < j; i, j = i+1, j-1 {
				keys[i], keys[j] = keys[j], keys[i]
				vals[i], vals[j] = vals[j], vals[i]
			}
		}
		return
	}
	// choose a permutation by successive choices (selection order)
	for i := 0; i < n-1; i++ {
		k := m.choose(n - i)
		keys[i], keys[i+k] = keys[i+k], keys[i]
		vals[i], vals[i+k] = vals[i+k], vals[i]
	}
}

// ---- globals and package initialisation -----------------------------------

func (m *Machine) global(g *ssa.Global) *Value {
	if c, ok := m.globals[g]; ok {
		return c
	}
	if m.isTemplate {
		m.p.ensureInitLocked(g.Pkg)
		if c, ok := m.globals[g]; ok {
			return c
		}
		v := m.zero(deref(g.Type()))
		c := &v
		m.globals[g] = c
		return c
	}
	m.p.initMu.Lock()
	m.p.ensureInitLocked(g.Pkg)
	tm := m.p.template
	// clone every global of that package that the template holds
	for _, mem := range g.Pkg.Members {
		if gg, ok := mem.(*ssa.Global); ok {
			if tc, ok := tm.globals[gg]; ok {
				if _, have := m.globals[gg]; !have {
					m.globals[gg] = m.cloneMemo.ptr(tc)
				}
			}
		}
	}
	if _, ok := m.globals[g]; !ok {
		// not touched by init: zero cell in the template, cloned
		v := tm.zero(deref(g.Type()))
		c := &v
		tm.globals[g] = c
		m.globals[g] = m.cloneMemo.ptr(c)
	}
	m.p.initMu.Unlock()
	return m.globals[g]
}

// ---- deep copy of template state -------------------------------------------

type cloneMemo struct {
	ptrs map[*Value]*Value
	maps map[*Map]*Map
	clos map[*Closure]*Closure
	arrs map[*Value][]Value // first element address of a backing array -> new backing
	nats map[interface{}]interface{}
}

func newCloneMemo() *cloneMemo {
	return &cloneMemo{ptrs: map[*Value]*Value{}, maps: map[*Map]*Map{}, clos: map[*Closure]*Closure{}, arrs: map[*Value][]Value{}, nats: map[interface{}]interface{}{}}
}

type cloner interface {
	cloneNative(cm *cloneMemo) interface{}
}

func (cm *cloneMemo) ptr(p *Value) *Value {
	if p == nil {
		return nil
	}
	if n, ok := cm.ptrs[p]; ok {
		return n
	}
	n := new(Value)
	cm.ptrs[p] = n
	*n = cm.val(*p)
	return n
}

func (cm *cloneMemo) agg(old []Value) []Value {
	nw := make([]Value, len(old))
	for i := range old {
		cm.ptrs[&old[i]] = &nw[i]
	}
	for i := range old {
		nw[i] = cm.val(old[i])
	}
	return nw
}

func (cm *cloneMemo) val(v Value) Value {
	switch v := v.(type) {
	case Struct:
		return Struct(cm.agg(v))
	case Array:
		return Array(cm.agg(v))
	case Tuple:
		return Tuple(cm.agg(v))
	case *Value:
		return cm.ptr(v)
	case Slice:
		if v.v == nil || cap(v.v) == 0 {
			return v
		}
		full := v.v[:cap(v.v)]
		key := &full[0]
		nb, ok := cm.arrs[key]
		if !ok {
			nb = make([]Value, len(full))
			cm.arrs[key] = nb
			for i := range full {
				cm.ptrs[&full[i]] = &nb[i]
			}
			for i := range full {
				nb[i] = cm.val(full[i])
			}
		}
		return Slice{v: nb[:len(v.v):cap(v.v)], blob: v.blob}
	case *Map:
		if v == nil {
			return v
		}
		if n, ok := cm.maps[v]; ok {
			return n
		}
		n := &Map{kt: v.kt}
		cm.maps[v] = n
		for i := range v.keys {
			n.keys = append(n.keys, cm.val(v.keys[i]))
			n.vals = append(n.vals, cm.val(v.vals[i]))
		}
		return n
	case Iface:
		return Iface{t: v.t, v: cm.val(v.v)}
	case *Closure:
		if v == nil {
			return v
		}
		if n, ok := cm.clos[v]; ok {
			return n
		}
		n := &Closure{fn: v.fn}
		cm.clos[v] = n
		for _, e := range v.env {
			n.env = append(n.env, cm.val(e))
		}
		return n
	}
	if c, ok := v.(cloner); ok {
		if n, ok := cm.nats[v]; ok {
			return n
		}
		n := c.cloneNative(cm)
		cm.nats[v] = n
		return n
	}
	return v
}

// ---- errors ------------------------------------------------------------------

// ErrObj models error values created through the environment
// (errorsmod.Register / Wrap / errors.New / fmt.Errorf / runtime errors).
type ErrObj struct {
	kind      string // sentinel | wrap | new | runtime
	msg       string
	cause     Value // Iface
	codespace string
	code      uint32
}

func (e *ErrObj) describe() string {
	s := e.msg
	if c, ok := e.cause.(Iface); ok && c.t != nil {
		if ce, ok := c.v.(*ErrObj); ok {
			s += ": " + ce.describe()
		} else {
			s += ": <" + c.t.String() + ">"
		}
	}
	return s
}

func (e *ErrObj) HasMethod(name string) bool {
	switch name {
	case "Error", "Unwrap", "Cause", "Is", "ABCICode", "Codespace", "Wrap", "Wrapf":
		return true
	}
	return false
}

func (e *ErrObj) Invoke(m *Machine, method string, args []Value) Value {
	switch method {
	case "Error", "String":
		return &Str{b: m.mkStr(e.describe()).b, tainted: true}
	case "Unwrap", "Cause":
		if e.cause == nil {
			return Iface{}
		}
		return e.cause
	case "Is":
		t := args[0].(Iface)
		return m.tb.Bool(m.errIs(Iface{t: m.p.nativeErrType, v: e}, t))
	case "ABCICode":
		return m.tb.Const(uint64(e.root().code), 32)
	case "Codespace":
		return m.mkStr(e.root().codespace)
	case "Wrap":
		return m.wrapErr(Iface{t: m.p.nativeErrType, v: e}, describeStr(args[0]))
	case "Wrapf":
		return m.wrapErr(Iface{t: m.p.nativeErrType, v: e}, describeStr(args[0]))
	}
	panic(unsupported("error method " + method))
}

func describeStr(v Value) string {
	if s, ok := v.(*Str); ok {
		return s.String()
	}
	return "?"
}

func (e *ErrObj) root() *ErrObj {
	for e.cause != nil {
		c, ok := e.cause.(Iface)
		if !ok || c.t == nil {
			break
		}
		ce, ok := c.v.(*ErrObj)
		if !ok {
			break
		}
		e = ce
	}
	return e
}

func (m *Machine) wrapErr(err Iface, msg string) Value {
	if err.t == nil {
		return Iface{}
	}
	return Iface{t: m.p.nativeErrType, v: &ErrObj{kind: "wrap", msg: msg, cause: err}}
}

// errIs follows the Unwrap chain comparing identities.
func (m *Machine) errIs(err, target Iface) bool {
	for err.t != nil {
		if target.t != nil && err.v == target.v {
			return true
		}
		e, ok := err.v.(*ErrObj)
		if !ok || e.cause == nil {
			return false
		}
		err = e.cause.(Iface)
	}
	return target.t == nil
}

// ---- model extraction ---------------------------------------------------------

func (m *Machine) extractModel(model map[*Term]*big.Int) []ModelVal {
	var out []ModelVal
	for _, in := range m.inputs {
		mv := ModelVal{Name: in.Name, Kind: in.Kind}
		switch in.Kind {
		case "bytes", "string":
			var sb strings.Builder
			for _, t := range in.Terms {
				v := termVal(t, model)
				fmt.Fprintf(&sb, "%02x", v.Uint64()&0xff)
			}
			mv.Val = sb.String()
		default:
			if len(in.Terms) == 1 {
				v := termVal(in.Terms[0], model)
				if in.Kind == "i64" {
					v = signedVal(v, 64)
				}
				mv.Val = v.String()
			} else {
				mv.Val = "0"
			}
		}
		out = append(out, mv)
	}
	return out
}

func termVal(t *Term, model map[*Term]*big.Int) *big.Int {
	if t.IsConst() {
		return t.val
	}
	if v, ok := model[t]; ok {
		return v
	}
	return new(big.Int)
}

func (m *Machine) inputTerms() []*Term {
	seen := map[*Term]bool{}
	var out []*Term
	for _, in := range m.inputs {
		for _, t := range in.Terms {
			if !t.IsConst() && !seen[t] {
				seen[t] = true
				out = append(out, t)
			}
		}
	}
	return out
}

// ---- misc ---------------------------------------------------------------------

func (p *Program) pos(instr ssa.Instruction) string {
	pos := instr.Pos()
	if !pos.IsValid() {
		if instr.Block() != nil {
			for _, i := range instr.Block().Instrs {
				if i.Pos().IsValid() {
					pos = i.Pos()
					break
				}
			}
		}
	}
	if !pos.IsValid() {
		return "?"
	}
	ps := p.prog.Fset.Position(pos)
	return fmt.Sprintf("%s:%d", ps.Filename, ps.Line)
}

func sortedKeys(m map[string]int) []string {
	var ks []string
	for k := range m {
		ks = append(ks, k)
	}
	sort.Strings(ks)
	return ks
}

var _ = types.Identical
