package hpacket

import (
	codectypes "github.com/cosmos/cosmos-sdk/codec/types"

	clienttypes "github.com/bianjieai/tibc-go/modules/tibc/core/02-client/types"
	routingtypes "github.com/bianjieai/tibc-go/modules/tibc/core/26-routing/types"
	"github.com/bianjieai/tibc-go/zzverif/vp"
)

func acct(n string) string { return vp.String(n, 3, 3, "gov") } // "gov" is the authority

func typeName(n string) string {
	if vp.Bool(n + ".isB") {
		return "typeB"
	}
	return "typeA"
}

// H_C15_create: MsgCreateClient by an arbitrary signer, name possibly already taken.
func H_C15_create() {
	c := newCore()
	w, ctx := c.w, c.ctx
	signer := acct("signer")
	chain := name("msg.chain")
	existed := hasClient(w, chain)
	cs := &stubClient{w: w, chain: chain, typ: typeName("new"), latest: clienttypes.NewHeight(0, 7)}
	mark := vp.StoreMark(ctx, "tibc")
	_, err := c.srv.CreateClient(ctx, &clienttypes.MsgCreateClient{ChainName: chain, Authority: signer,
		ClientState: codectypes.UnsafePackAny(cs), ConsensusState: codectypes.UnsafePackAny(&stubCons{typ: cs.typ})})
	if err == nil {
		vp.Reach("client created")
		vp.Assert(signer == authority, "C15.1 creating a client takes effect only when requested by the governance authority")
		vp.Assert(!existed, "C15.2 creating a client never overwrites an existing one")
		got, found := c.k.ClientKeeper.GetClientState(ctx, chain)
		vp.Assert(found && got.ClientType() == cs.typ, "C15.2 the created client is the submitted one")
	} else {
		vp.Reach("client creation refused")
		vp.Note(vp.StoreMark(ctx, "tibc") == mark, "diag: refused creation wrote nothing (keeper level)")
	}
	if signer != authority || existed {
		vp.Assert(err != nil, "C15.1 a request by another account, or for an existing name, is refused")
	} else {
		vp.Assert(err == nil, "C15.3 the authority can create a client under a free name")
	}
}

// H_C15_upgrade: MsgUpgradeClient by an arbitrary signer with client / consensus states of arbitrary types.
func H_C15_upgrade() {
	c := newCore()
	w, ctx := c.w, c.ctx
	signer := acct("signer")
	chain := name("msg.chain")
	existed := hasClient(w, chain)
	// give the stored client (if any) a type
	oldType := typeName("old")
	if existed {
		c.k.ClientKeeper.SetClientState(ctx, chain, &stubClient{w: w, chain: chain, typ: oldType, latest: clienttypes.NewHeight(0, 5)})
	}
	newType, consType := typeName("new"), typeName("cons")
	cs := &stubClient{w: w, chain: chain, typ: newType, latest: clienttypes.NewHeight(0, 9)}
	_, err := c.srv.UpgradeClient(ctx, &clienttypes.MsgUpgradeClient{ChainName: chain, Authority: signer,
		ClientState: codectypes.UnsafePackAny(cs), ConsensusState: codectypes.UnsafePackAny(&stubCons{typ: consType})})
	got, found := c.k.ClientKeeper.GetClientState(ctx, chain)
	if err == nil {
		vp.Reach("client upgraded")
		vp.Assert(signer == authority, "C15.1 upgrading a client takes effect only when requested by the governance authority")
		vp.Assert(existed, "C15.2 only an existing client can be upgraded")
		vp.Assert(found && got.ClientType() == oldType, "C15.2 upgrading never changes a client's type")
	} else {
		vp.Reach("client upgrade refused")
		if existed {
			vp.Note(found && got.ClientType() == oldType && got.GetLatestHeight().GetRevisionHeight() == 5, "diag: refused upgrade left the stored client (keeper level)")
		}
	}
	if signer != authority || !existed || newType != oldType {
		vp.Assert(err != nil, "C15.1 an upgrade by another account, of an unknown client, or to another client type is refused")
	}
	if signer == authority && existed && newType == oldType && consType == oldType {
		vp.Assert(err == nil, "C15.3 the authority can upgrade an existing client within its type")
	}
}

// H_C15_relayer_rules: MsgRegisterRelayer and MsgSetRoutingRules need the authority.
func H_C15_relayer_rules() {
	c := newCore()
	ctx := c.ctx
	signer := acct("signer")
	chain := name("msg.chain")
	r := acct("relayer")
	before := c.k.ClientKeeper.AuthRelayer(ctx, chain, r)
	_, err := c.srv.RegisterRelayer(ctx, &clienttypes.MsgRegisterRelayer{ChainName: chain, Authority: signer, Relayers: []string{r}})
	after := c.k.ClientKeeper.AuthRelayer(ctx, chain, r)
	if err == nil {
		vp.Reach("relayers registered")
		vp.Assert(signer == authority, "C15.1 registering relayers takes effect only when requested by the governance authority")
		vp.Assert(after, "C15.3 a registered relayer is authorised for that chain")
	} else {
		vp.Reach("relayer registration refused")
		vp.Assert(after == before, "C15.1 a refused registration changes nothing in the registry")
	}
	vp.Assert((err == nil) == (signer == authority), "C15.1 relayer registration succeeds exactly for the authority")

	signer2 := acct("signer2")
	_, hadRules := c.k.RoutingKeeper.GetRoutingRules(ctx)
	_, err2 := c.srv.SetRoutingRules(ctx, &routingtypes.MsgSetRoutingRules{Authority: signer2, Rules: []string{"ab,*,n"}})
	_, hasRules := c.k.RoutingKeeper.GetRoutingRules(ctx)
	if err2 == nil {
		vp.Reach("routing rules changed")
		vp.Assert(signer2 == authority, "C15.1 changing routing rules takes effect only when requested by the governance authority")
	} else {
		vp.Reach("routing rule change refused")
		vp.Assert(hasRules == hadRules, "C15.1 a refused rule change leaves the stored rules")
	}
	vp.Assert((err2 == nil) == (signer2 == authority), "C15.1 a valid rule change succeeds exactly for the authority")
}

// H_C15_update: MsgUpdateClient needs a relayer registered for THAT chain.
func H_C15_update() {
	c := newCore()
	w, ctx := c.w, c.ctx
	chain := name("msg.chain")
	other := vp.String("other.chain", 2, 3, "ab") // possibly an extension of the client's name
	signer := acct("signer")
	regHere, regOther := vp.Bool("registered.here"), vp.Bool("registered.other")
	someone := acct("someone")
	if regHere {
		c.k.ClientKeeper.RegisterRelayers(ctx, chain, []string{someone, signer})
	} else if vp.Bool("others.here") {
		vp.Assume(someone != signer)
		c.k.ClientKeeper.RegisterRelayers(ctx, chain, []string{someone})
	}
	if regOther {
		vp.Assume(other != chain)
		c.k.ClientKeeper.RegisterRelayers(ctx, other, []string{signer})
	}
	existed := hasClient(w, chain)
	_, err := c.srv.UpdateClient(ctx, &clienttypes.MsgUpdateClient{ChainName: chain, Signer: signer,
		Header: codectypes.UnsafePackAny(&stubHeader{h: clienttypes.NewHeight(0, 11)})})
	if err == nil {
		vp.Reach("client updated")
		vp.Assert(regHere, "C15.1 header updates take effect only when sent by a relayer registered for that chain")
		vp.Assert(existed, "C15.2 only an existing client is updated")
	} else {
		vp.Reach("client update refused")
	}
	if w.updates > 0 {
		vp.Assert(regHere, "C15.1 the light client is consulted only for a relayer registered for that chain")
	}
	if !regHere {
		vp.Assert(err != nil, "C15.1 an update by an account not registered for that chain (even if registered for another) is refused")
	}
}
