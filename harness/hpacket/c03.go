package hpacket

import (
	packettypes "github.com/bianjieai/tibc-go/modules/tibc/core/04-packet/types"
	"github.com/bianjieai/tibc-go/zzverif/vp"
)

// H_C03_ack: one AcknowledgePacket step. The stored commitment (if any) is the commitment of an
// arbitrary packet p0 on the same key (possibly p itself), built through the real CommitPacket.
func H_C03_ack() {
	w, k, ctx := newWorld()
	p := nondetPacket("p")
	vp.Assume(p.Sequence < 100)
	hasCommit := vp.Bool("pre.hasCommit")
	p0 := packettypes.Packet{Data: vp.Bytes("pre.committedData", 0, 1)}
	stored := refCommit(p0.Data)
	vp.SetIf(hasCommit, func() { k.SetPacketCommitment(ctx, p.SourceChain, p.DestinationChain, p.Sequence, stored) })
	cp := cleanPre(k, ctx, p.SourceChain, p.DestinationChain)
	maxAckPre := vp.Uint64("pre.maxAck") // 0 = never written
	vp.SetIf(maxAckPre > 0, func() { k.SetMaxAckSequence(ctx, p.SourceChain, p.DestinationChain, maxAckPre) })
	ack := vp.Bytes("ack", 0, 1)
	proof := vp.Bytes("proof", 0, 1)
	h := nondetHeight("h")
	mark := vp.StoreMark(ctx, "tibc")

	err := k.AcknowledgePacket(ctx, p, ack, proof, h)

	ackChain := p.DestinationChain
	if p.SourceChain == w.self && len(p.RelayChain) > 0 {
		ackChain = p.RelayChain
	}
	commitKey := refCommitmentKey(p.SourceChain, p.DestinationChain, p.Sequence)
	ackKey := refAckKey(p.SourceChain, p.DestinationChain, p.Sequence)
	maxKey := refMaxAckKey(p.SourceChain, p.DestinationChain)
	if err == nil {
		vp.Reach("ack accepted")
		vp.Assert(vp.And(hasCommit, sameBytes(stored, refCommit(p.Data))), "C03.1 accepted only while this chain still holds the commitment of exactly that packet")
		vp.Assert(okCall(w, 2, ackChain, h, proof, p.SourceChain, p.DestinationChain, p.Sequence, refCommit(ack)),
			"C03.1 accepted only after the acknowledging chain's client verified sha256(ack) for (src,dst,seq) at the submitted height")
		vp.Assert(hasClient(w, ackChain), "C03.1 the acknowledging chain has a registered client")
		vp.Assert(p.Sequence > cp, "C10.4 acknowledgements at or below the clean point are refused")
		vp.Assert(involves(p, w.self), "C03.1 acknowledgements not involving this chain are refused")
		vp.Assert(!k.HasPacketCommitment(ctx, p.SourceChain, p.DestinationChain, p.Sequence), "C03.2 acceptance drops the commitment (a second acknowledgement fails)")
		got := k.GetMaxAckSequence(ctx, p.SourceChain, p.DestinationChain)
		vp.Assert(vp.And(got >= p.Sequence, got >= maxAckPre, vp.Or(got == p.Sequence, got == maxAckPre)), "C10.2 the acknowledged high-water mark is max(previous, sequence)")
		vp.Assert(onlyWrote(ctx, mark, commitKey, ackKey, maxKey), "C03.2 an acknowledgement touches only this packet's commitment, its ack slot and the channel's high-water mark")
		stAck, has := k.GetPacketAcknowledgement(ctx, p.SourceChain, p.DestinationChain, p.Sequence)
		if p.RelayChain == w.self {
			vp.Reach("ack passes through relay chain")
			vp.Assert(vp.And(has, sameBytes(stAck, refCommit(ack))), "C11.4 the relay chain records the hash of exactly the submitted acknowledgement")
			vp.Assert(hasClient(w, p.SourceChain), "C11.4 passed on only if the source is known")
		} else {
			vp.Assert(!has, "C11.3 no acknowledgement is recorded when this chain is not the relay chain")
		}
	} else {
		vp.Reach("ack rejected")
		vp.Note(vp.StoreMark(ctx, "tibc") == mark, "diag: rejected acknowledgement wrote nothing (keeper level)")
	}
	if !anyOk(w) {
		vp.Assert(err != nil, "C03.1 no successful verification => rejected")
	}
	if hasCommit && sameBytes(stored, refCommit(p.Data)) && p.Sequence > cp && len(p.Data) > 0 && involves(p, w.self) && hasClient(w, ackChain) && allOk(w) {
		if p.RelayChain != w.self || hasClient(w, p.SourceChain) {
			vp.Assert(err == nil, "C03.6 a genuine acknowledgement of a pending packet is accepted")
		}
	}
}

// H_C03_writeack: WriteAcknowledgement writes once, never empty, never overwrites.
func H_C03_writeack() {
	w, k, ctx := newWorld()
	p := nondetPacket("p")
	vp.Assume(p.Sequence < 100 && p.Sequence >= 1)
	hasAck := vp.Bool("pre.hasAck")
	old := refCommit(vp.Bytes("pre.oldAck", 1, 1))
	vp.SetIf(hasAck, func() { k.SetPacketAcknowledgement(ctx, p.SourceChain, p.DestinationChain, p.Sequence, old) })
	maxAckPre := vp.Uint64("pre.maxAck") // 0 = never written
	vp.SetIf(maxAckPre > 0, func() { k.SetMaxAckSequence(ctx, p.SourceChain, p.DestinationChain, maxAckPre) })
	ack := vp.Bytes("ack", 0, 1)
	mark := vp.StoreMark(ctx, "tibc")

	err := k.WriteAcknowledgement(ctx, p, ack)

	target := p.SourceChain
	if len(p.RelayChain) > 0 && p.DestinationChain == w.self {
		target = p.RelayChain
	}
	got, has := k.GetPacketAcknowledgement(ctx, p.SourceChain, p.DestinationChain, p.Sequence)
	if err == nil {
		vp.Reach("ack written")
		vp.Assert(len(ack) > 0, "C03.4 an empty acknowledgement is never recorded")
		vp.Assert(!hasAck, "C03.4 an existing acknowledgement is never overwritten")
		vp.Assert(vp.And(has, sameBytes(got, refCommit(ack))), "C03.4 the recorded value is the hash of exactly the bytes passed")
		vp.Assert(hasClient(w, target), "C03.4 written only if the chain the ack travels to is known")
		m := k.GetMaxAckSequence(ctx, p.SourceChain, p.DestinationChain)
		vp.Assert(vp.And(m >= p.Sequence, m >= maxAckPre, vp.Or(m == p.Sequence, m == maxAckPre)), "C10.2 high-water mark is max(previous, sequence)")
		vp.Assert(onlyWrote(ctx, mark, refAckKey(p.SourceChain, p.DestinationChain, p.Sequence), refMaxAckKey(p.SourceChain, p.DestinationChain)),
			"C03.4 writing an acknowledgement touches only its slot and the channel's high-water mark")
	} else {
		vp.Reach("ack write refused")
		if hasAck {
			vp.Assert(vp.And(has, sameBytes(got, old)), "C03.4 a refused write leaves the recorded acknowledgement as it was")
		}
		vp.Assert(vp.StoreMark(ctx, "tibc") == mark, "C03.4 a refused acknowledgement write changes nothing")
	}
	if len(ack) > 0 && !hasAck && hasClient(w, target) {
		vp.Assert(err == nil, "C03.5 a first non-empty acknowledgement towards a known chain is recorded")
	}
}
