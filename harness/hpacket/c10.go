package hpacket

import (
	packettypes "github.com/bianjieai/tibc-go/modules/tibc/core/04-packet/types"
	"github.com/bianjieai/tibc-go/zzverif/vp"
)

// slot is the arbitrary pre-state of one sequence of the channel under test.
type slot struct {
	seq                  uint64
	commit, receipt, ack bool
}

// sequences cp .. cp+window are populated arbitrarily; N <= cp+window (stated bound: 3; on the source
// chain 4 in the thorough tier -- off the source the three flags per sequence make 4 too wide: > 1 h)
func sourceWindow() uint64 { return uint64(vp.Bound(3, 4)) }

const offSourceWindow = 3

// cleanState builds an arbitrary channel state around a clean request: clean point cp, ack
// high-water mark, and for each sequence in the window an arbitrary combination of
// commitment / receipt / acknowledgement (guarded writes: no forking on the flags).
// Representation invariant (step-checked by the other harnesses): no commitment at or below the
// clean point; onSource: this chain holds no receipts/acks for a channel whose source it is.
func cleanState(k keeperT, ctx ctxT, src, dst string, onSource bool, window uint64) (cp, maxAck uint64, slots []slot) {
	cp = vp.Uint64("pre.cleanPoint")
	vp.Assume(cp < 90)
	vp.SetIf(vp.Or(cp > 0, vp.Bool("pre.cleanPointStored")), func() { k.SetCleanPacketCommitment(ctx, src, dst, cp) })
	maxAck = vp.Uint64("pre.maxAck")
	vp.Assume(maxAck < 99)
	vp.SetIf(maxAck > 0, func() { k.SetMaxAckSequence(ctx, src, dst, maxAck) })
	val := refCommit([]byte{1})
	for i := uint64(0); i <= window; i++ {
		s := slot{seq: cp + i}
		if i > 0 {
			s.commit = vp.Bool("pre.commit")
		}
		if !onSource {
			s.receipt, s.ack = vp.Bool("pre.receipt"), vp.Bool("pre.ack")
		}
		vp.SetIf(s.commit, func() { k.SetPacketCommitment(ctx, src, dst, s.seq, val) })
		vp.SetIf(s.receipt, func() { k.SetPacketReceipt(ctx, src, dst, s.seq) })
		vp.SetIf(s.ack, func() { k.SetPacketAcknowledgement(ctx, src, dst, s.seq, val) })
		slots = append(slots, s)
	}
	return
}

func checkCleanPost(k keeperT, ctx ctxT, src, dst string, cp, n uint64, slots []slot, mark int, tag string) {
	vp.Assert(clientBE(k.GetCleanPacketCommitment(ctx, src, dst)) == n, tag+" the clean point becomes exactly N")
	allowed := [][]byte{refCleanKey(src, dst)}
	removedOK, keptOK, commitsOK := true, true, true
	for _, s := range slots {
		inRange := vp.And(s.seq > cp, s.seq <= n)
		rk, ak, ck := refReceiptKey(src, dst, s.seq), refAckKey(src, dst, s.seq), refCommitmentKey(src, dst, s.seq)
		hasR, hasA, hasC := vp.HasKey(ctx, "tibc", rk), vp.HasKey(ctx, "tibc", ak), vp.HasKey(ctx, "tibc", ck)
		removedOK = vp.And(removedOK, vp.Implies(inRange, vp.And(!hasR, !hasA)))
		keptOK = vp.And(keptOK, vp.Implies(!inRange, vp.And(hasR == s.receipt, hasA == s.ack)))
		commitsOK = vp.And(commitsOK, hasC == s.commit)
		allowed = append(allowed, rk, ak)
	}
	vp.Assert(removedOK, tag+" receipts and acknowledgements in (old clean point, N] are removed")
	vp.Assert(keptOK, tag+" receipts and acknowledgements outside (old clean point, N] are kept")
	vp.Assert(commitsOK, tag+" cleaning never touches commitments")
	// writes: only the clean point and deletions of receipts/acks; the deletions must be inside the range
	nw := vp.StoreMark(ctx, "tibc")
	inside := true
	for i := mark; i < nw; i++ {
		key := vp.WrittenKey(ctx, "tibc", i)
		hit := vp.BytesEq(key, refCleanKey(src, dst))
		for _, s := range slots {
			inRange := vp.And(s.seq > cp, s.seq <= n)
			hit = vp.Or(hit, vp.And(inRange, vp.Or(vp.BytesEq(key, refReceiptKey(src, dst, s.seq)), vp.BytesEq(key, refAckKey(src, dst, s.seq)))))
		}
		inside = vp.And(inside, hit)
	}
	vp.Assert(inside, tag+" cleaning writes only the clean point and deletes only receipts/acks in (old clean point, N]")
}

func pendingIn(slots []slot, cp, n uint64) bool {
	pending := false
	for _, s := range slots {
		pending = vp.Or(pending, vp.And(s.commit, s.seq <= n, s.seq > cp))
	}
	return pending
}

// H_C10_clean: CleanPacket on the source chain.
func H_C10_clean() {
	w, k, ctx := newWorld()
	dst := name("dst")
	relay := optName("relay")
	window := sourceWindow()
	cp, maxAck, slots := cleanState(k, ctx, w.self, dst, true, window)
	n := vp.Uint64("N")
	vp.Assume(n <= cp+window)
	mark := vp.StoreMark(ctx, "tibc")

	err := k.CleanPacket(ctx, packettypes.CleanPacket{Sequence: n, SourceChain: name("msg.src"), DestinationChain: dst, RelayChain: relay})

	target := dst
	if len(relay) > 0 {
		target = relay
	}
	pending := pendingIn(slots, cp, n)
	if err == nil {
		vp.Reach("clean accepted on source")
		vp.Assert(n > cp, "C10.1 N must be above the previous clean point")
		vp.Assert(n <= maxAck, "C10.1 N must not exceed the highest acknowledged sequence")
		vp.Assert(!pending, "C10.1 every packet up to N has been acknowledged (no commitment left in (clean point, N])")
		vp.Assert(hasClient(w, target), "C10.1 the next hop is known")
		checkCleanPost(k, ctx, w.self, dst, cp, n, slots, mark, "C10.3")
		ev := packettypes.EventTypeSendCleanPacket
		vp.Assert(vp.And(vp.NumEvents(ctx, ev) == 1,
			vp.EventAttr(ctx, ev, 0, packettypes.AttributeKeySequence) == decimal(n),
			vp.EventAttr(ctx, ev, 0, packettypes.AttributeKeySrcChain) == w.self,
			vp.EventAttr(ctx, ev, 0, packettypes.AttributeKeyDstChain) == dst,
			vp.EventAttr(ctx, ev, 0, packettypes.AttributeKeyRelayChain) == relay), "C10.3 the clean request is announced once with its fields")
	} else {
		vp.Reach("clean rejected on source")
		vp.Note(vp.StoreMark(ctx, "tibc") == mark, "diag: a refused clean wrote nothing (keeper level)")
	}
	if n > cp && n <= maxAck && !pending && hasClient(w, target) {
		vp.Assert(err == nil, "C10.6 a legitimate clean request is accepted")
	}
}

// H_C10_recvclean: RecvCleanPacket on a relay or destination chain.
func H_C10_recvclean() {
	w, k, ctx := newWorld()
	src, dst := name("src"), name("dst")
	relay := optName("relay")
	cp, maxAck, slots := cleanState(k, ctx, src, dst, false, offSourceWindow)
	n := vp.Uint64("N")
	vp.Assume(n <= cp+offSourceWindow)
	proof := vp.Bytes("proof", 0, 1)
	h := nondetHeight("h")
	mark := vp.StoreMark(ctx, "tibc")

	err := k.RecvCleanPacket(ctx, packettypes.CleanPacket{Sequence: n, SourceChain: src, DestinationChain: dst, RelayChain: relay}, proof, h)

	proving := src
	if dst == w.self && len(relay) > 0 {
		proving = relay
	}
	pending := pendingIn(slots, cp, n)
	if err == nil {
		vp.Reach("clean accepted off source")
		vp.Assert(okCall(w, 3, proving, h, proof, src, dst, n, nil), "C10.2 accepted only with proof of the source's clean point N, verified by the proving chain's client at the submitted height")
		vp.Assert(hasClient(w, proving), "C10.2 the proving chain has a client")
		vp.Assert(n > cp, "C10.2 N must be above the previous clean point (the clean point never decreases)")
		vp.Assert(n <= maxAck, "C10.2 N must not exceed the highest acknowledged sequence seen here")
		vp.Assert(!pending, "C10.2 no pending commitment in (clean point, N] on this chain")
		checkCleanPost(k, ctx, src, dst, cp, n, slots, mark, "C10.3r")
		if relay == w.self {
			vp.Reach("clean passes through relay chain")
			vp.Assert(hasClient(w, dst), "C11.5 the relay chain passes the clean request on only if the destination is known")
			vp.Assert(vp.NumEvents(ctx, packettypes.EventTypeSendCleanPacket) == 1, "C11.5 the relay chain re-announces the clean request")
		}
	} else {
		vp.Reach("clean rejected off source")
		vp.Note(vp.StoreMark(ctx, "tibc") == mark, "diag: a refused clean wrote nothing (keeper level)")
	}
	if !anyOk(w) {
		vp.Assert(err != nil, "C10.2 no successful verification => rejected")
	}
	if n > cp && n <= maxAck && !pending && hasClient(w, proving) && allOk(w) && (relay != w.self || hasClient(w, dst)) {
		vp.Assert(err == nil, "C10.6 a proven, in-range clean request is accepted")
	}
}
