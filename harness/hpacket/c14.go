package hpacket

import (
	codectypes "github.com/cosmos/cosmos-sdk/codec/types"
	sdkerrors "github.com/cosmos/cosmos-sdk/types/errors"

	clienttypes "github.com/bianjieai/tibc-go/modules/tibc/core/02-client/types"
	packettypes "github.com/bianjieai/tibc-go/modules/tibc/core/04-packet/types"
	"github.com/bianjieai/tibc-go/modules/tibc/core/exported"
	"github.com/bianjieai/tibc-go/zzverif/vp"
)

func nonActive() exported.Status {
	if vp.Bool("status.expired") {
		return exported.Expired
	}
	return exported.Unknown
}

// H_C14_gate_recv: a client that does not report Active is not used to accept packets.
func H_C14_gate_recv() {
	w, k, ctx := newWorld()
	p := nondetPacket("p")
	vp.Assume(p.Sequence < 100)
	proving := p.SourceChain
	if p.DestinationChain == w.self && len(p.RelayChain) > 0 {
		proving = p.RelayChain
	}
	w.status[proving] = nonActive()
	err := k.RecvPacket(ctx, p, vp.Bytes("proof", 1, 1), nondetHeight("h"))
	vp.Reach("receive through a non-active client attempted")
	vp.Assert(!(err == nil || err == sdkerrors.ErrUnauthorized), "C14.3 a packet proven through a client that is not Active is rejected")
}

// H_C14_gate_ack: the same for acknowledgements.
func H_C14_gate_ack() {
	w, k, ctx := newWorld()
	p := nondetPacket("p")
	vp.Assume(p.Sequence < 100)
	k.SetPacketCommitment(ctx, p.SourceChain, p.DestinationChain, p.Sequence, refCommit(p.Data))
	ackChain := p.DestinationChain
	if p.SourceChain == w.self && len(p.RelayChain) > 0 {
		ackChain = p.RelayChain
	}
	w.status[ackChain] = nonActive()
	err := k.AcknowledgePacket(ctx, p, vp.Bytes("ack", 1, 1), vp.Bytes("proof", 1, 1), nondetHeight("h"))
	vp.Reach("acknowledgement through a non-active client attempted")
	vp.Assert(err != nil, "C14.3 an acknowledgement proven through a client that is not Active is rejected")
}

// H_C14_gate_clean: the same for clean requests received off the source chain.
func H_C14_gate_clean() {
	w, k, ctx := newWorld()
	src, dst, relay := name("src"), name("dst"), optName("relay")
	k.SetMaxAckSequence(ctx, src, dst, 5)
	proving := src
	if dst == w.self && len(relay) > 0 {
		proving = relay
	}
	w.status[proving] = nonActive()
	n := vp.Uint64("N")
	vp.Assume(n < 6)
	err := k.RecvCleanPacket(ctx, packettypes.CleanPacket{Sequence: n, SourceChain: src, DestinationChain: dst, RelayChain: relay}, vp.Bytes("proof", 1, 1), nondetHeight("h"))
	vp.Reach("clean request through a non-active client attempted")
	vp.Assert(err != nil, "C14.3 a clean request proven through a client that is not Active is rejected")
}

// H_C14_gate_update: a client that is not Active refuses header updates -- also a header that is
// itself recent enough to bring the client back inside its trusting period.
func H_C14_gate_update() {
	c := newCore()
	vp.Assume(len(c.w.clients) > 0)
	chain := c.w.clients[0]
	signer := acct("signer")
	c.k.ClientKeeper.RegisterRelayers(c.ctx, chain, []string{signer})
	c.w.status[chain] = nonActive()
	c.w.reviveOnUpdate = vp.Bool("header.is.recent")
	_, err := c.srv.UpdateClient(c.ctx, &clienttypes.MsgUpdateClient{ChainName: chain, Signer: signer,
		Header: codectypes.UnsafePackAny(&stubHeader{h: clienttypes.NewHeight(0, 11)})})
	vp.Reach("header update of a non-active client attempted")
	vp.Assert(err != nil, "C14.2 a client that is not Active refuses header updates (also headers that would bring it back inside its trusting period)")
}
