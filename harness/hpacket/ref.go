package hpacket

import "crypto/sha256"

// Reference definitions of the protocol's store keys and commitment hashes, written here from the
// protocol description (and the counterparty contracts' layout) so that the expectations of the
// harnesses do not move with a change to the repo's own helpers (24-host/keys.go, CommitPacket).

func refPair(src, dst string) string { return src + "/" + dst }

func refNextSeqSendKey(src, dst string) []byte {
	return []byte("nextSequenceSend/" + refPair(src, dst))
}
func refCommitmentKey(src, dst string, seq uint64) []byte {
	return []byte("commitments/" + refPair(src, dst) + "/sequences/" + decimal(seq))
}
func refAckKey(src, dst string, seq uint64) []byte {
	return []byte("acks/" + refPair(src, dst) + "/sequences/" + decimal(seq))
}
func refReceiptKey(src, dst string, seq uint64) []byte {
	return []byte("receipts/" + refPair(src, dst) + "/sequences/" + decimal(seq))
}
func refCleanKey(src, dst string) []byte  { return []byte("clean/" + refPair(src, dst)) }
func refMaxAckKey(src, dst string) []byte { return []byte("maxAckSeq/" + refPair(src, dst)) }

// refCommit: a packet is committed to by the SHA-256 of its data, an acknowledgement by the SHA-256 of its bytes.
func refCommit(data []byte) []byte {
	h := sha256.Sum256(data)
	return h[:]
}
