// Package hpacket holds the harnesses for the packet layer (04-packet keeper).
// The counterparty light client, the client registry and the routing keeper are
// stubs written here; everything else is the real tibc-go code.
package hpacket

import (
	"strconv"

	storetypes "cosmossdk.io/store/types"
	"github.com/cosmos/cosmos-sdk/codec"
	sdk "github.com/cosmos/cosmos-sdk/types"

	clienttypes "github.com/bianjieai/tibc-go/modules/tibc/core/02-client/types"
	packetkeeper "github.com/bianjieai/tibc-go/modules/tibc/core/04-packet/keeper"
	packettypes "github.com/bianjieai/tibc-go/modules/tibc/core/04-packet/types"
	"github.com/bianjieai/tibc-go/modules/tibc/core/exported"
	"github.com/bianjieai/tibc-go/zzverif/vp"
)

// verifyCall records one call of a Verify* method of the counterparty light client.
type verifyCall struct {
	kind   int // 1 commitment, 2 ack, 3 clean
	chain  string
	height exported.Height
	src    string
	dst    string
	seq    uint64
	value  []byte
	proof  []byte
	ok     bool
}

// world is the harness-side environment of one chain.
type world struct {
	self    string
	clients []string // chain names with a registered client
	status  map[string]exported.Status
	calls   []verifyCall
	updates int
	// a valid header makes a non-active client Active again (its newest state is then recent)
	reviveOnUpdate bool
	// LC oracle: answers of the light client, one nondeterministic boolean per call
	auth                       bool
	authCalls                  int
	authSrc, authDst, authPort string
}

// stubClient is the light client of one counterparty chain (contract LC of DESIGN.md §4).
type stubClient struct {
	w       *world
	chain   string
	typ     string // client type ("" = "stub")
	latest  clienttypes.Height
	revived bool // state after a header update that brought the client back inside its trusting period
}

// stubCons is a consensus state of a given client type.
type stubCons struct{ typ string }

func (c *stubCons) Reset()                 {}
func (c *stubCons) String() string         { return "stubcons" }
func (c *stubCons) ProtoMessage()          {}
func (c *stubCons) ClientType() string     { return c.typ }
func (c *stubCons) GetRoot() exported.Root { return nil }
func (c *stubCons) GetTimestamp() uint64   { return 0 }
func (c *stubCons) ValidateBasic() error   { return nil }

// stubHeader is a header for a stub client.
type stubHeader struct{ h clienttypes.Height }

func (h *stubHeader) Reset()                     {}
func (h *stubHeader) String() string             { return "stubheader" }
func (h *stubHeader) ProtoMessage()              {}
func (h *stubHeader) ClientType() string         { return "stub" }
func (h *stubHeader) GetHeight() exported.Height { return h.h }
func (h *stubHeader) ValidateBasic() error       { return nil }

func (c *stubClient) Reset()         {}
func (c *stubClient) String() string { return "stub" }
func (c *stubClient) ProtoMessage()  {}

func (c *stubClient) ClientType() string {
	if c.typ == "" {
		return "stub"
	}
	return c.typ
}
func (c *stubClient) GetLatestHeight() exported.Height { return c.latest }
func (c *stubClient) Validate() error                  { return nil }
func (c *stubClient) GetDelayTime() uint64             { return 0 }
func (c *stubClient) GetDelayBlock() uint64            { return 0 }
func (c *stubClient) GetPrefix() exported.Prefix       { return nil }
func (c *stubClient) Initialize(sdk.Context, codec.BinaryCodec, storetypes.KVStore, exported.ConsensusState) error {
	return nil
}
func (c *stubClient) Status(ctx sdk.Context, s storetypes.KVStore, cdc codec.BinaryCodec) exported.Status {
	if c.revived {
		return exported.Active
	}
	if st, ok := c.w.status[c.chain]; ok {
		return st
	}
	return exported.Active
}
func (c *stubClient) ExportMetadata(storetypes.KVStore) []exported.GenesisMetadata { return nil }
func (c *stubClient) CheckHeaderAndUpdateState(ctx sdk.Context, cdc codec.BinaryCodec, s storetypes.KVStore, h exported.Header) (exported.ClientState, exported.ConsensusState, error) {
	c.w.updates++
	if vp.Bool("lc.headerValid") {
		if c.w.reviveOnUpdate {
			return &stubClient{w: c.w, chain: c.chain, typ: c.typ, latest: c.latest, revived: true}, &stubCons{typ: c.ClientType()}, nil
		}
		return c, &stubCons{typ: c.ClientType()}, nil
	}
	return nil, nil, packettypes.ErrInvalidPacket
}

func (c *stubClient) verify(kind int, h exported.Height, proof []byte, src, dst string, seq uint64, value []byte) error {
	ok := vp.Bool("lc.ok")
	// LC is a function of (client, height, key, value): equal questions get equal answers
	for _, prev := range c.w.calls {
		same := vp.And(prev.kind == kind, prev.chain == c.chain, prev.src == src, prev.dst == dst, prev.seq == seq,
			prev.height.GetRevisionNumber() == h.GetRevisionNumber(), prev.height.GetRevisionHeight() == h.GetRevisionHeight(),
			vp.BytesEq(prev.value, value), vp.BytesEq(prev.proof, proof))
		vp.Assume(vp.Implies(same, ok == prev.ok))
	}
	c.w.calls = append(c.w.calls, verifyCall{kind: kind, chain: c.chain, height: h, src: src, dst: dst, seq: seq, value: value, proof: proof, ok: ok})
	if ok {
		return nil
	}
	return packettypes.ErrInvalidPacket
}

func (c *stubClient) VerifyPacketCommitment(ctx sdk.Context, s storetypes.KVStore, cdc codec.BinaryCodec, h exported.Height, proof []byte, src, dst string, seq uint64, commitment []byte) error {
	return c.verify(1, h, proof, src, dst, seq, commitment)
}
func (c *stubClient) VerifyPacketAcknowledgement(ctx sdk.Context, s storetypes.KVStore, cdc codec.BinaryCodec, h exported.Height, proof []byte, src, dst string, seq uint64, ack []byte) error {
	return c.verify(2, h, proof, src, dst, seq, ack)
}
func (c *stubClient) VerifyPacketCleanCommitment(ctx sdk.Context, s storetypes.KVStore, cdc codec.BinaryCodec, h exported.Height, proof []byte, src, dst string, seq uint64) error {
	return c.verify(3, h, proof, src, dst, seq, nil)
}

// stubClientKeeper implements packettypes.ClientKeeper.
type stubClientKeeper struct{ w *world }

func (k stubClientKeeper) GetClientState(ctx sdk.Context, chain string) (exported.ClientState, bool) {
	for _, c := range k.w.clients {
		if c == chain {
			return &stubClient{w: k.w, chain: chain}, true
		}
	}
	return nil, false
}
func (k stubClientKeeper) GetClientConsensusState(ctx sdk.Context, chain string, h exported.Height) (exported.ConsensusState, bool) {
	return nil, false
}
func (k stubClientKeeper) ClientStore(ctx sdk.Context, chain string) storetypes.KVStore {
	return ctx.KVStore(vp.StoreKey("aux"))
}
func (k stubClientKeeper) GetChainName(ctx sdk.Context) string { return k.w.self }

// stubRouting implements packettypes.RoutingKeeper.
type stubRouting struct{ w *world }

func (r stubRouting) Authenticate(ctx sdk.Context, src, dst, port string) bool {
	r.w.authCalls++
	r.w.authSrc, r.w.authDst, r.w.authPort = src, dst, port
	return r.w.auth
}

// name is a symbolic chain name / identifier within the stated bound.
func name(n string) string { return vp.String(n, 2, 2, "ab") }

// optName is either empty or a name.
func optName(n string) string {
	if vp.Bool(n + ".present") {
		return name(n)
	}
	return ""
}

func hasClient(w *world, chain string) bool {
	r := false
	for _, c := range w.clients {
		r = vp.Or(r, c == chain)
	}
	return r
}

// newWorld: own chain name symbolic, up to three registered clients with symbolic names.
func newWorld() (*world, packetkeeper.Keeper, sdk.Context) {
	w := &world{self: name("self"), status: map[string]exported.Status{}}
	n := vp.Choice("nclients", vp.Bound(3, 4))
	for i := 0; i < n; i++ {
		c := name("client")
		vp.Assume(c != w.self) // invariant: a chain keeps no light client of itself
		w.clients = append(w.clients, c)
	}
	w.auth = vp.Bool("route.allowed")
	ctx := vp.Ctx()
	k := packetkeeper.NewKeeper(nil, vp.StoreKey("tibc"), stubClientKeeper{w}, stubRouting{w})
	return w, k, ctx
}

func nondetPacket(tag string) packettypes.Packet {
	relay := optName(tag + ".relay")
	return packettypes.Packet{
		Sequence:         vp.Uint64(tag + ".seq"),
		Port:             vp.String(tag+".port", 1, 1, "np"),
		SourceChain:      name(tag + ".src"),
		DestinationChain: name(tag + ".dst"),
		RelayChain:       relay,
		Data:             vp.Bytes(tag+".data", 0, vp.Bound(1, 2)),
	}
}

type keeperT = packetkeeper.Keeper
type ctxT = sdk.Context

// decimal renders n in base 10 (independent of the code under test).
func decimal(n uint64) string { return strconv.FormatUint(n, 10) }

func sameBytes(a, b []byte) bool { return vp.BytesEq(a, b) }

// onlyWrote: every write to the tibc store since mark targets one of the allowed keys.
func onlyWrote(ctx ctxT, mark int, allowed ...[]byte) bool {
	n := vp.StoreMark(ctx, "tibc")
	ok := true
	for i := mark; i < n; i++ {
		key := vp.WrittenKey(ctx, "tibc", i)
		hit := false
		for _, a := range allowed {
			hit = vp.Or(hit, vp.BytesEq(key, a))
		}
		ok = vp.And(ok, hit)
	}
	return ok
}

// clientBE decodes an 8-byte big-endian counter (0 if absent / malformed).
func clientBE(bz []byte) uint64 {
	if len(bz) != 8 {
		return 0
	}
	var n uint64
	for _, b := range bz {
		n = n<<8 | uint64(b)
	}
	return n
}
