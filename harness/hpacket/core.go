package hpacket

import (
	"github.com/cosmos/cosmos-sdk/codec"
	sdk "github.com/cosmos/cosmos-sdk/types"
	proto "github.com/cosmos/gogoproto/proto"

	clienttypes "github.com/bianjieai/tibc-go/modules/tibc/core/02-client/types"
	packettypes "github.com/bianjieai/tibc-go/modules/tibc/core/04-packet/types"
	routingtypes "github.com/bianjieai/tibc-go/modules/tibc/core/26-routing/types"
	"github.com/bianjieai/tibc-go/modules/tibc/core/exported"
	corekeeper "github.com/bianjieai/tibc-go/modules/tibc/core/keeper"
	coretypes "github.com/bianjieai/tibc-go/modules/tibc/core/types"
	"github.com/bianjieai/tibc-go/zzverif/vp"
)

// regCodec is the codec handed to the real keepers: interface values (client and consensus
// states) are kept in a registry and "marshalled" to a one-byte handle. It is ordinary Go and is
// executed as such by the symbolic executor and by the native replay. Assumption: the real
// protobuf codec is a faithful inverse pair, which is all the keepers rely on.
type regCodec struct {
	codec.BinaryCodec
	objs []proto.Message
}

func (c *regCodec) MarshalInterface(i proto.Message) ([]byte, error) {
	c.objs = append(c.objs, i)
	return []byte{byte(len(c.objs))}, nil
}

// MustMarshal / MustUnmarshal for the plain messages the client keeper stores (relayer lists).
func (c *regCodec) MustMarshal(o proto.Message) []byte {
	if ir, ok := o.(*clienttypes.IdentifiedRelayers); ok {
		cp := *ir
		cp.Relayers = append([]string{}, ir.Relayers...)
		c.objs = append(c.objs, &cp)
		return []byte{byte(len(c.objs))}
	}
	panic("regCodec: unsupported message")
}

func (c *regCodec) MustUnmarshal(bz []byte, ptr proto.Message) {
	if len(bz) == 0 {
		return
	}
	if len(bz) != 1 || int(bz[0]) < 1 || int(bz[0]) > len(c.objs) {
		panic("regCodec: bad handle")
	}
	src, ok := c.objs[int(bz[0])-1].(*clienttypes.IdentifiedRelayers)
	dst, ok2 := ptr.(*clienttypes.IdentifiedRelayers)
	if !ok || !ok2 {
		panic("regCodec: type mismatch")
	}
	dst.ChainName = src.ChainName
	dst.Relayers = append([]string{}, src.Relayers...)
}

func (c *regCodec) UnmarshalInterface(bz []byte, ptr interface{}) error {
	if len(bz) != 1 || int(bz[0]) < 1 || int(bz[0]) > len(c.objs) {
		return packettypes.ErrInvalidPacket
	}
	o := c.objs[int(bz[0])-1]
	switch p := ptr.(type) {
	case *exported.ClientState:
		*p = o.(exported.ClientState)
	case *exported.ConsensusState:
		*p = o.(exported.ConsensusState)
	case *exported.Header:
		*p = o.(exported.Header)
	default:
		return packettypes.ErrInvalidPacket
	}
	return nil
}

// stubApp is the application bound to a port.
type stubApp struct {
	recvCalls, ackCalls int
	recvPacket          packettypes.Packet
	ackPacket           packettypes.Packet
	ackSeen             []byte
	recvFails           bool
	ackFails            bool
	ackBytes            []byte // what OnRecvPacket returns (nil = asynchronous acknowledgement)
}

func (a *stubApp) OnRecvPacket(ctx sdk.Context, p packettypes.Packet) (*sdk.Result, []byte, error) {
	a.recvCalls++
	a.recvPacket = p
	if a.recvFails {
		return nil, nil, packettypes.ErrInvalidPacket
	}
	return &sdk.Result{}, a.ackBytes, nil
}

func (a *stubApp) OnAcknowledgementPacket(ctx sdk.Context, p packettypes.Packet, ack []byte) (*sdk.Result, error) {
	a.ackCalls++
	a.ackPacket = p
	a.ackSeen = ack
	if a.ackFails {
		return nil, packettypes.ErrInvalidPacket
	}
	return &sdk.Result{}, nil
}

type core struct {
	w   *world
	k   *corekeeper.Keeper
	srv coretypes.MsgServer
	app *stubApp
	ctx sdk.Context
}

const authority = "gov"

// newCore builds one chain out of the REAL core keeper (client registry, packet keeper, routing
// keeper and message server); only the light clients stored in the registry and the bound
// application are stubs. Port "n" is bound, port "p" is not.
func newCore() *core {
	w := &world{self: name("self"), status: map[string]exported.Status{}}
	ctx := vp.Ctx()
	cdc := &regCodec{}
	k := corekeeper.NewKeeper(cdc, vp.StoreKey("tibc"), nil, authority)
	k.ClientKeeper.SetChainName(ctx, w.self)
	n := vp.Choice("nclients", vp.Bound(3, 4))
	for i := 0; i < n; i++ {
		c := name("client")
		vp.Assume(c != w.self) // invariant: a chain keeps no light client of itself
		w.clients = append(w.clients, c)
		k.ClientKeeper.SetClientState(ctx, c, &stubClient{w: w, chain: c})
	}
	app := &stubApp{recvFails: vp.Bool("app.recvFails"), ackFails: vp.Bool("app.ackFails")}
	if !vp.Bool("app.asyncAck") {
		app.ackBytes = vp.Bytes("app.ack", 0, 1)
	}
	rtr := routingtypes.NewRouter()
	rtr.AddRoute("n", app)
	k.SetRouter(rtr)
	// routing rules of this chain: none, allow-all, or one concrete rule
	switch vp.Choice("rules", 3) {
	case 1:
		_ = k.RoutingKeeper.SetRoutingRules(ctx, []string{"*,*,*"})
	case 2:
		_ = k.RoutingKeeper.SetRoutingRules(ctx, []string{"aa,*,n"})
	}
	return &core{w: w, k: k, srv: corekeeper.NewMsgServerImpl(*k), app: app, ctx: ctx}
}

// H_C01_handler_recv: MsgRecvPacket through the real message server.
func H_C01_handler_recv() {
	c := newCore()
	w, k, ctx := c.w, c.k.PacketKeeper, c.ctx
	p := nondetPacket("p")
	vp.Assume(p.Sequence < 100)
	hasReceipt := vp.Bool("pre.hasReceipt")
	vp.SetIf(hasReceipt, func() { k.SetPacketReceipt(ctx, p.SourceChain, p.DestinationChain, p.Sequence) })
	hasAck := vp.Bool("pre.hasAck")
	vp.SetIf(hasAck, func() {
		k.SetPacketAcknowledgement(ctx, p.SourceChain, p.DestinationChain, p.Sequence, refCommit([]byte{7}))
	})
	proof := vp.Bytes("proof", 1, 1)
	h := nondetHeight("h")
	authorised := c.k.RoutingKeeper.Authenticate(ctx, p.SourceChain, p.DestinationChain, p.Port)
	mark := vp.StoreMark(ctx, "tibc")

	_, err := c.srv.RecvPacket(ctx, &packettypes.MsgRecvPacket{Packet: p, ProofCommitment: proof, ProofHeight: h, Signer: "relayer"})

	proving := p.SourceChain
	if p.DestinationChain == w.self && len(p.RelayChain) > 0 {
		proving = p.RelayChain
	}
	verified := okCall(w, 1, proving, h, proof, p.SourceChain, p.DestinationChain, p.Sequence, refCommit(p.Data))
	stored, hasStored := k.GetPacketAcknowledgement(ctx, p.SourceChain, p.DestinationChain, p.Sequence)
	if c.app.recvCalls > 0 {
		vp.Reach("application received the packet")
		vp.Assert(c.app.recvCalls == 1, "C02.4 the application sees a packet at most once per message")
		vp.Assert(p.DestinationChain == w.self, "C02.4 the application runs only on the destination chain")
		vp.Assert(verified, "C01.3 the application runs only after the proving chain's client verified the packet")
		vp.Assert(!hasReceipt, "C02.1 the application never sees a packet that already has a receipt")
		vp.Assert(vp.And(c.app.recvPacket.Sequence == p.Sequence, c.app.recvPacket.SourceChain == p.SourceChain,
			c.app.recvPacket.DestinationChain == p.DestinationChain, c.app.recvPacket.Port == p.Port,
			c.app.recvPacket.RelayChain == p.RelayChain, sameBytes(c.app.recvPacket.Data, p.Data)), "C01.3 the application receives the packet unchanged")
		vp.Assert(p.Port == "n", "C01.3 only the application bound to the packet's port runs")
		if c.app.recvFails {
			vp.Assert(err != nil, "C19.1 a failing application callback fails the message")
		}
	}
	if err == nil {
		vp.Reach("receive message succeeded")
		vp.Assert(onlyWrote(ctx, mark,
			refReceiptKey(p.SourceChain, p.DestinationChain, p.Sequence),
			refAckKey(p.SourceChain, p.DestinationChain, p.Sequence),
			refMaxAckKey(p.SourceChain, p.DestinationChain),
			refCommitmentKey(p.SourceChain, p.DestinationChain, p.Sequence)),
			"C19.2 a successful receive records exactly the receipt and, as the case may be, the acknowledgement (+ high-water mark) or the forwarded commitment")
		vp.Assert(verified, "C01.1 the message succeeds only after a successful verification of exactly this packet")
		vp.Assert(k.HasPacketReceipt(ctx, p.SourceChain, p.DestinationChain, p.Sequence), "C02.2 a successful message leaves the receipt")
		if p.DestinationChain == w.self {
			vp.Assert(c.app.recvCalls == 1, "C02.5 on the destination the application is invoked")
			if c.app.ackBytes != nil {
				vp.Assert(vp.And(hasStored, sameBytes(stored, refCommit(c.app.ackBytes))), "C03.5 the recorded acknowledgement is the one the application returned")
				vp.Assert(len(c.app.ackBytes) > 0, "C03.4 an empty acknowledgement is never recorded")
				vp.Assert(!hasAck, "C03.4 an acknowledgement is never overwritten")
			}
		} else {
			vp.Assert(c.app.recvCalls == 0, "C11.3 no application logic on a chain that is not the destination")
		}
		if p.RelayChain == w.self {
			fwd := k.GetPacketCommitment(ctx, p.SourceChain, p.DestinationChain, p.Sequence)
			if authorised {
				vp.Reach("relay chain forwarded")
				vp.Assert(sameBytes(fwd, refCommit(p.Data)), "C11.1 an authorised packet is re-committed unchanged")
				vp.Assert(hasClient(w, p.DestinationChain), "C11.1 forwarded only towards a known destination")
				vp.Assert(!hasStored || hasAck, "C11.1 a forwarded packet gets no acknowledgement on the relay chain")
			} else {
				vp.Reach("relay chain answered with an error acknowledgement")
				vp.Assert(len(fwd) == 0, "C11.2 a packet the rules forbid is not re-committed")
				vp.Assert(hasStored, "C11.2 a packet the rules forbid is answered with an error acknowledgement")
				vp.Assert(!hasAck, "C03.4 an acknowledgement is never overwritten")
			}
		}
	} else {
		vp.Reach("receive message failed")
		vp.Note(vp.StoreMark(ctx, "tibc") == mark, "diag: failed message wrote nothing (BaseApp discards the branch anyway)")
	}
	if !anyOk(w) {
		vp.Assert(err != nil, "C01.2 without a successful verification the message fails")
		vp.Assert(c.app.recvCalls == 0, "C01.2 without a successful verification the application does not run")
	}
}

// H_C03_handler_ack: MsgAcknowledgement through the real message server.
func H_C03_handler_ack() {
	c := newCore()
	w, k, ctx := c.w, c.k.PacketKeeper, c.ctx
	p := nondetPacket("p")
	vp.Assume(p.Sequence < 100)
	hasCommit := vp.Bool("pre.hasCommit")
	p0 := packettypes.Packet{Data: vp.Bytes("pre.committedData", 1, 1)}
	stored := refCommit(p0.Data)
	vp.SetIf(hasCommit, func() { k.SetPacketCommitment(ctx, p.SourceChain, p.DestinationChain, p.Sequence, stored) })
	ack := vp.Bytes("ack", 0, 1)
	proof := vp.Bytes("proof", 1, 1)
	h := nondetHeight("h")

	_, err := c.srv.Acknowledgement(ctx, &packettypes.MsgAcknowledgement{Packet: p, Acknowledgement: ack, ProofAcked: proof, ProofHeight: h, Signer: "relayer"})

	ackChain := p.DestinationChain
	if p.SourceChain == w.self && len(p.RelayChain) > 0 {
		ackChain = p.RelayChain
	}
	verified := okCall(w, 2, ackChain, h, proof, p.SourceChain, p.DestinationChain, p.Sequence, refCommit(ack))
	if c.app.ackCalls > 0 {
		vp.Reach("application processed the acknowledgement")
		vp.Assert(c.app.ackCalls == 1, "C03.3 the acknowledgement logic runs at most once per message")
		vp.Assert(vp.And(hasCommit, sameBytes(stored, refCommit(p.Data))), "C03.3 the acknowledgement logic runs only while the commitment of exactly that packet is held")
		vp.Assert(verified, "C03.3 the acknowledgement logic runs only after the acknowledging chain's client verified exactly this acknowledgement")
		vp.Assert(!k.HasPacketCommitment(ctx, p.SourceChain, p.DestinationChain, p.Sequence), "C03.2 the commitment is dropped when the acknowledgement is processed")
		vp.Assert(vp.And(sameBytes(c.app.ackSeen, ack), c.app.ackPacket.Sequence == p.Sequence, sameBytes(c.app.ackPacket.Data, p.Data)), "C03.3 the application sees the acknowledgement and packet unchanged")
		vp.Assert(p.SourceChain == w.self, "C11.3 no application acknowledgement logic on a chain that is not the packet's source")
		if c.app.ackFails {
			vp.Assert(err != nil, "C19.1 a failing acknowledgement callback fails the message")
		}
	}
	if err == nil {
		vp.Reach("acknowledgement message succeeded")
		vp.Assert(verified, "C03.1 the message succeeds only after a successful verification of exactly this acknowledgement")
		if p.SourceChain == w.self {
			vp.Assert(p.Port == "n", "C03.1 on the source chain only acknowledgements for a bound port succeed")
			vp.Assert(c.app.ackCalls == 1, "C03.6 on the source chain the application's acknowledgement logic runs")
		}
	} else {
		vp.Reach("acknowledgement message failed")
	}
	if !anyOk(w) {
		vp.Assert(err != nil, "C03.1 without a successful verification the message fails")
		vp.Assert(c.app.ackCalls == 0, "C03.1 without a successful verification the acknowledgement logic does not run")
	}
}

// H_C19_handler_clean: MsgCleanPacket / MsgRecvCleanPacket through the message server: a refusal of
// the keeper is returned to the caller (BaseApp then discards the branch), success means the keeper succeeded.
func H_C19_handler_clean() {
	c := newCore()
	w, k, ctx := c.w, c.k.PacketKeeper, c.ctx
	src, dst, relay := name("src"), name("dst"), optName("relay")
	cp, maxAck := vp.Uint64("pre.cleanPoint"), vp.Uint64("pre.maxAck")
	vp.Assume(cp < 90 && maxAck < 99)
	vp.SetIf(cp > 0, func() { k.SetCleanPacketCommitment(ctx, src, dst, cp) })
	vp.SetIf(maxAck > 0, func() { k.SetMaxAckSequence(ctx, src, dst, maxAck) })
	n := vp.Uint64("N")
	vp.Assume(n <= cp+2)
	cpk := packettypes.CleanPacket{Sequence: n, SourceChain: src, DestinationChain: dst, RelayChain: relay}
	if vp.Bool("on.source") {
		_, err := c.srv.CleanPacket(ctx, &packettypes.MsgCleanPacket{CleanPacket: cpk, Signer: "user"})
		if err == nil {
			vp.Reach("clean message succeeded")
			vp.Assert(n > cp && n <= maxAck && src == w.self, "C19.1 a clean message succeeds only if the keeper accepted it (own channel, N in (clean point, acknowledged])")
			vp.Assert(clientBE(k.GetCleanPacketCommitment(ctx, src, dst)) == n, "C10.3 a successful clean message moves the clean point to N")
		} else {
			vp.Reach("clean message failed")
		}
		if !(n > cp && n <= maxAck) {
			vp.Assert(err != nil, "C19.1 a refused clean request fails the message")
		}
		return
	}
	proof := vp.Bytes("proof", 1, 1)
	h := nondetHeight("h")
	_, err := c.srv.RecvCleanPacket(ctx, &packettypes.MsgRecvCleanPacket{CleanPacket: cpk, ProofCommitment: proof, ProofHeight: h, Signer: "relayer"})
	if err == nil {
		vp.Reach("receive-clean message succeeded")
		vp.Assert(anyOk(w), "C10.2 a receive-clean message succeeds only after a successful verification")
		vp.Assert(n > cp && n <= maxAck, "C19.1 a receive-clean message succeeds only if the keeper accepted it")
	} else {
		vp.Reach("receive-clean message failed")
	}
	if !anyOk(w) || !(n > cp && n <= maxAck) {
		vp.Assert(err != nil, "C19.1 a refused receive-clean request fails the message")
	}
}
