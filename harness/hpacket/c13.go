package hpacket

import (
	sdkerrors "github.com/cosmos/cosmos-sdk/types/errors"

	packettypes "github.com/bianjieai/tibc-go/modules/tibc/core/04-packet/types"
	"github.com/bianjieai/tibc-go/zzverif/vp"
)

// alter returns p with its port or relay chain changed; kind says how.
// 0 port changed, 1 relay removed, 2 relay added, 3 relay replaced.
func alter(p packettypes.Packet, kind int) packettypes.Packet {
	p2 := p
	switch kind {
	case 0:
		p2.Port = vp.String("alt.port", 1, 1, "np")
		vp.Assume(p2.Port != p.Port)
	case 1:
		vp.Assume(len(p.RelayChain) > 0)
		p2.RelayChain = ""
	case 2:
		vp.Assume(len(p.RelayChain) == 0)
		p2.RelayChain = name("alt.relay")
	case 3:
		vp.Assume(len(p.RelayChain) > 0)
		p2.RelayChain = name("alt.relay")
		vp.Assume(p2.RelayChain != p.RelayChain)
	}
	return p2
}

var alterNames = []string{"port changed", "relay chain removed", "relay chain added", "relay chain replaced"}

// H_C13_recv_redirect: two-packet non-interference for receive. The genuine packet p is
// acceptable here (first run, fresh store); the relayer presents p2 = p with an altered port or
// relay chain against the same chain state (second fresh store, same clients, LC a function of
// its question). The property demands that p2 is rejected.
func H_C13_recv_redirect() {
	w, k, ctx := newWorld()
	p := nondetPacket("p")
	vp.Assume(p.Sequence < 100)
	kind := vp.Choice("alteration", 4)
	p2 := alter(p, kind)
	proof := vp.Bytes("proof", 1, 1)
	h := nondetHeight("h")
	err := k.RecvPacket(ctx, p, proof, h)
	vp.Assume(err == nil || err == sdkerrors.ErrUnauthorized) // the genuine message is acceptable
	vp.Assume(allOk(w))

	ctx2 := vp.Ctx()
	err2 := k.RecvPacket(ctx2, p2, vp.Bytes("proof2", 1, 1), nondetHeight("h2"))
	accepted2 := err2 == nil || err2 == sdkerrors.ErrUnauthorized
	vp.Reach("genuine packet acceptable, altered packet presented")
	switch kind {
	case 0:
		vp.Assert(!accepted2, "C13.1 receive: a committed packet presented with another port is rejected")
	case 1:
		vp.Assert(!accepted2, "C13.2 receive: a committed packet presented without its relay chain is rejected")
	case 2:
		vp.Assert(!accepted2, "C13.3 receive: a committed direct packet presented with a relay chain is rejected")
	case 3:
		vp.Assert(!accepted2, "C13.4 receive: a committed packet presented with another relay chain is rejected")
	}
}

// H_C13_ack_redirect: the same for acknowledgements: the source holds the commitment of p; an
// acknowledgement message carrying p2 (altered port / relay) must be rejected.
func H_C13_ack_redirect() {
	w, k, ctx := newWorld()
	p := nondetPacket("p")
	vp.Assume(p.Sequence < 100)
	vp.Assume(p.SourceChain == w.self)
	kind := vp.Choice("alteration", 4)
	p2 := alter(p, kind)
	k.SetPacketCommitment(ctx, p.SourceChain, p.DestinationChain, p.Sequence, refCommit(p.Data))
	ack := vp.Bytes("ack", 1, 1)
	err2 := k.AcknowledgePacket(ctx, p2, ack, vp.Bytes("proof", 1, 1), nondetHeight("h"))
	vp.Reach("altered acknowledgement presented")
	switch kind {
	case 0:
		vp.Assert(err2 != nil, "C13.5 acknowledgement: a packet presented with another port is rejected")
	case 1:
		vp.Assert(err2 != nil, "C13.6 acknowledgement: a packet presented without its relay chain is rejected")
	case 2:
		vp.Assert(err2 != nil, "C13.7 acknowledgement: a direct packet presented with a relay chain is rejected")
	case 3:
		vp.Assert(err2 != nil, "C13.8 acknowledgement: a packet presented with another relay chain is rejected")
	}
}
