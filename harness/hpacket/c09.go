package hpacket

import (
	packettypes "github.com/bianjieai/tibc-go/modules/tibc/core/04-packet/types"
	"github.com/bianjieai/tibc-go/zzverif/vp"
)

// counterPre installs an arbitrary next-sequence counter for p's channel (or none) and returns its value.
func counterPre(k keeperT, ctx ctxT, src, dst string) uint64 {
	has := vp.Bool("pre.hasCounter")
	v := vp.Uint64("pre.next")
	vp.Assume(v >= 1 && v < 99)
	vp.SetIf(has, func() { k.SetNextSequenceSend(ctx, src, dst, v) })
	return vp.IteU64(has, v, 1)
}

// H_C09_send: one SendPacket step from an arbitrary counter state.
func H_C09_send() {
	w, k, ctx := newWorld()
	p := nondetPacket("p")
	vp.Assume(p.Sequence < 100) // bound: decimal key building
	pre := counterPre(k, ctx, p.SourceChain, p.DestinationChain)
	mark := vp.StoreMark(ctx, "tibc")

	err := k.SendPacket(ctx, p)

	target := p.DestinationChain
	if len(p.RelayChain) > 0 {
		target = p.RelayChain
	}
	if err == nil {
		vp.Reach("send accepted")
		vp.Assert(p.Sequence == pre, "C09.1 accepted send carries exactly the next sequence")
		vp.Assert(k.GetNextSequenceSend(ctx, p.SourceChain, p.DestinationChain) == pre+1, "C09.1 counter advanced by exactly one")
		vp.Assert(sameBytes(k.GetPacketCommitment(ctx, p.SourceChain, p.DestinationChain, p.Sequence), refCommit(p.Data)), "C09.1 commitment at (src,dst,seq) is the hash of the data")
		vp.Assert(p.SourceChain == w.self, "C09.3 only packets whose source is this chain are sent")
		vp.Assert(hasClient(w, target), "C09.3 next hop (relay if named, else destination) has a client")
		vp.Assert(len(p.Data) > 0 && p.Sequence != 0, "C09.3 empty data / zero sequence rejected")
		vp.Assert(vp.NumEvents(ctx, packettypes.EventTypeSendPacket) == 1, "C09.1 exactly one send_packet event")
		ev := packettypes.EventTypeSendPacket
		vp.Assert(vp.And(
			vp.EventAttr(ctx, ev, 0, packettypes.AttributeKeySrcChain) == p.SourceChain,
			vp.EventAttr(ctx, ev, 0, packettypes.AttributeKeyDstChain) == p.DestinationChain,
			vp.EventAttr(ctx, ev, 0, packettypes.AttributeKeyRelayChain) == p.RelayChain,
			vp.EventAttr(ctx, ev, 0, packettypes.AttributeKeyPort) == p.Port,
			vp.EventAttr(ctx, ev, 0, packettypes.AttributeKeyData) == string(p.Data),
			vp.EventAttr(ctx, ev, 0, packettypes.AttributeKeySequence) == decimal(p.Sequence)),
			"C09.1 the event announces the packet's six fields")
		vp.Assert(onlyWrote(ctx, mark,
			refNextSeqSendKey(p.SourceChain, p.DestinationChain),
			refCommitmentKey(p.SourceChain, p.DestinationChain, p.Sequence)),
			"C09.4 a send writes only its channel's counter and its own commitment")
	} else {
		vp.Reach("send rejected")
		vp.Assert(vp.NumEvents(ctx, packettypes.EventTypeSendPacket) == 0, "C09.2 a rejected send is not announced")
		vp.Note(vp.StoreMark(ctx, "tibc") == mark, "diag: rejected send wrote nothing (keeper level; BaseApp discards the branch anyway)")
	}
	// completeness: a well-formed next packet towards a known hop is accepted
	if p.SourceChain == w.self && hasClient(w, target) && len(p.Data) > 0 && p.Sequence == pre {
		vp.Assert(err == nil, "C09.2 well-formed next packet is accepted")
	}
}

// H_C09_pairs: (source, destination) pairs are independent -- also for destination names that are
// not well-formed identifiers (the destination of a relayed packet is never validated).
func H_C09_pairs() {
	w, k, ctx := newWorld()
	vp.Assume(len(w.clients) > 0)
	relay := w.clients[0]
	dst := vp.String("dst", 1, 3, "a/.")
	other := vp.String("other.dst", 1, 3, "a/.")
	vp.Assume(dst != other)
	v2 := vp.Uint64("other.next")
	vp.Assume(v2 >= 1 && v2 < 99)
	k.SetNextSequenceSend(ctx, w.self, other, v2)
	k.SetPacketCommitment(ctx, w.self, other, 1, []byte{7})
	p := packettypes.Packet{Sequence: 1, Port: "n", SourceChain: w.self, DestinationChain: dst, RelayChain: relay, Data: []byte{1}}

	err := k.SendPacket(ctx, p)

	vp.Reach("first packet of a pair sent while another pair has history")
	vp.Assert(err == nil, "C09.1 the first packet of a pair gets sequence 1 whatever other pairs have sent")
	vp.Assert(k.GetNextSequenceSend(ctx, w.self, other) == v2, "C09.1 a send leaves the counters of other (source, destination) pairs alone")
	vp.Assert(sameBytes(k.GetPacketCommitment(ctx, w.self, other, 1), []byte{7}), "C09.1 a send leaves the commitments of other pairs alone")
}
