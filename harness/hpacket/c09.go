package hpacket

import (
	packettypes "github.com/bianjieai/tibc-go/modules/tibc/core/04-packet/types"
	"github.com/bianjieai/tibc-go/zzverif/vp"
)

// counterPre installs an arbitrary next-sequence counter for p's channel (or none) and returns its value.
func counterPre(k keeperT, ctx ctxT, src, dst string) uint64 {
	pre := uint64(1)
	if vp.Bool("pre.hasCounter") {
		pre = vp.Uint64("pre.next")
		vp.Assume(pre >= 1 && pre < 99)
		k.SetNextSequenceSend(ctx, src, dst, pre)
	}
	return pre
}

// H_C09_send: one SendPacket step from an arbitrary counter state.
func H_C09_send() {
	w, k, ctx := newWorld()
	p := nondetPacket("p")
	vp.Assume(p.Sequence < 100) // bound: decimal key building
	pre := counterPre(k, ctx, p.SourceChain, p.DestinationChain)

	err := k.SendPacket(ctx, p)

	target := p.DestinationChain
	if len(p.RelayChain) > 0 {
		target = p.RelayChain
	}
	if err == nil {
		vp.Reach("send accepted")
		vp.Assert(p.Sequence == pre, "C09.1 accepted send carries exactly the next sequence")
		vp.Assert(k.GetNextSequenceSend(ctx, p.SourceChain, p.DestinationChain) == pre+1, "C09.1 counter advanced by exactly one")
		vp.Assert(sameBytes(k.GetPacketCommitment(ctx, p.SourceChain, p.DestinationChain, p.Sequence), packettypes.CommitPacket(p)), "C09.1 commitment at (src,dst,seq) is the hash of the data")
		vp.Assert(p.SourceChain == w.self, "C09.3 only packets whose source is this chain are sent")
		vp.Assert(hasClient(w, target), "C09.3 next hop (relay if named, else destination) has a client")
		vp.Assert(len(p.Data) > 0 && p.Sequence != 0, "C09.3 empty data / zero sequence rejected")
		vp.Assert(vp.NumEvents(ctx, packettypes.EventTypeSendPacket) == 1, "C09.1 exactly one send_packet event")
		ev := packettypes.EventTypeSendPacket
		vp.Assert(vp.EventAttr(ctx, ev, 0, packettypes.AttributeKeySrcChain) == p.SourceChain, "C09.1 event announces the source chain")
		vp.Assert(vp.EventAttr(ctx, ev, 0, packettypes.AttributeKeyDstChain) == p.DestinationChain, "C09.1 event announces the destination chain")
		vp.Assert(vp.EventAttr(ctx, ev, 0, packettypes.AttributeKeyRelayChain) == p.RelayChain, "C09.1 event announces the relay chain")
		vp.Assert(vp.EventAttr(ctx, ev, 0, packettypes.AttributeKeyPort) == p.Port, "C09.1 event announces the port")
		vp.Assert(vp.EventAttr(ctx, ev, 0, packettypes.AttributeKeyData) == string(p.Data), "C09.1 event announces the data")
		vp.Assert(vp.EventAttr(ctx, ev, 0, packettypes.AttributeKeySequence) == decimal(p.Sequence), "C09.1 event announces the sequence")
	} else {
		vp.Reach("send rejected")
		vp.Assert(vp.NumEvents(ctx, packettypes.EventTypeSendPacket) == 0, "C09.2 a rejected send is not announced")
		vp.Note(k.GetNextSequenceSend(ctx, p.SourceChain, p.DestinationChain) == pre, "diag: rejected send left the counter (keeper level; BaseApp discards the branch anyway)")
		vp.Note(len(k.GetPacketCommitment(ctx, p.SourceChain, p.DestinationChain, p.Sequence)) == 0, "diag: rejected send left no commitment (keeper level)")
	}
	// completeness: a well-formed next packet towards a known hop is accepted
	if p.SourceChain == w.self && hasClient(w, target) && len(p.Data) > 0 && p.Sequence == pre {
		vp.Assert(err == nil, "C09.2 well-formed next packet is accepted")
	}
}

// H_C09_send_frame: SendPacket changes no other channel's counter and no other commitment.
func H_C09_send_frame() {
	_, k, ctx := newWorld()
	p := nondetPacket("p")
	vp.Assume(p.Sequence < 100)
	q := nondetPacket("q")
	vp.Assume(q.Sequence < 100 && q.Sequence >= 1)
	sameChannel := q.SourceChain == p.SourceChain && q.DestinationChain == p.DestinationChain
	qNext := vp.Uint64("pre.qnext")
	vp.Assume(qNext >= 1 && qNext < 99)
	k.SetNextSequenceSend(ctx, q.SourceChain, q.DestinationChain, qNext)
	if !sameChannel {
		counterPre(k, ctx, p.SourceChain, p.DestinationChain)
	}
	qHasCommit := vp.Bool("pre.qcommit")
	qc := packettypes.CommitPacket(q)
	if qHasCommit {
		k.SetPacketCommitment(ctx, q.SourceChain, q.DestinationChain, q.Sequence, qc)
	}
	qHasAck := vp.Bool("pre.qack")
	if qHasAck {
		k.SetPacketAcknowledgement(ctx, q.SourceChain, q.DestinationChain, q.Sequence, qc)
	}
	qHasReceipt := vp.Bool("pre.qreceipt")
	if qHasReceipt {
		k.SetPacketReceipt(ctx, q.SourceChain, q.DestinationChain, q.Sequence)
	}

	err := k.SendPacket(ctx, p)
	if err == nil {
		vp.Reach("send accepted (frame)")
	} else {
		vp.Reach("send rejected (frame)")
	}
	if !sameChannel {
		vp.Assert(k.GetNextSequenceSend(ctx, q.SourceChain, q.DestinationChain) == qNext, "C09.4 other channels' counters untouched")
	}
	if !(sameChannel && q.Sequence == p.Sequence) {
		got := k.GetPacketCommitment(ctx, q.SourceChain, q.DestinationChain, q.Sequence)
		if qHasCommit {
			vp.Assert(sameBytes(got, qc), "C09.4 other commitments untouched")
		} else {
			vp.Assert(len(got) == 0, "C09.4 no commitment appears elsewhere")
		}
	}
	vp.Assert(k.HasPacketAcknowledgement(ctx, q.SourceChain, q.DestinationChain, q.Sequence) == qHasAck, "C09.4 acknowledgements untouched by a send")
	vp.Assert(k.HasPacketReceipt(ctx, q.SourceChain, q.DestinationChain, q.Sequence) == qHasReceipt, "C09.4 receipts untouched by a send")
}
