package hpacket

import (
	sdkerrors "github.com/cosmos/cosmos-sdk/types/errors"

	clienttypes "github.com/bianjieai/tibc-go/modules/tibc/core/02-client/types"
	packettypes "github.com/bianjieai/tibc-go/modules/tibc/core/04-packet/types"
	"github.com/bianjieai/tibc-go/modules/tibc/core/exported"
	"github.com/bianjieai/tibc-go/zzverif/vp"
)

func nondetHeight(tag string) clienttypes.Height {
	return clienttypes.NewHeight(vp.Uint64(tag+".rev"), vp.Uint64(tag+".height"))
}

func heightEq(a exported.Height, b clienttypes.Height) bool {
	return vp.And(a.GetRevisionNumber() == b.RevisionNumber, a.GetRevisionHeight() == b.RevisionHeight)
}

// okCall: some verification of the given kind succeeded with exactly these arguments.
func okCall(w *world, kind int, chain string, h clienttypes.Height, proof []byte, src, dst string, seq uint64, value []byte) bool {
	r := false
	for _, c := range w.calls {
		if c.kind != kind || c.height == nil {
			continue
		}
		valueOK := true
		if kind != 3 {
			valueOK = sameBytes(c.value, value)
		}
		r = vp.Or(r, vp.And(c.ok, c.chain == chain, c.src == src, c.dst == dst, c.seq == seq, heightEq(c.height, h), sameBytes(c.proof, proof), valueOK))
	}
	return r
}

func anyOk(w *world) bool {
	r := false
	for _, c := range w.calls {
		r = vp.Or(r, c.ok)
	}
	return r
}

func allOk(w *world) bool {
	r := true
	for _, c := range w.calls {
		r = vp.And(r, c.ok)
	}
	return r
}

// cleanPre installs an arbitrary clean point for the channel (or none) and returns it.
func cleanPre(k keeperT, ctx ctxT, src, dst string) uint64 {
	has := vp.Bool("pre.hasCleanPoint")
	cp := vp.Uint64("pre.cleanPoint")
	vp.Assume(cp < 100)
	vp.SetIf(has, func() { k.SetCleanPacketCommitment(ctx, src, dst, cp) })
	return vp.IteU64(has, cp, 0)
}

func involves(p packettypes.Packet, self string) bool {
	return vp.Or(p.SourceChain == self, p.DestinationChain == self, p.RelayChain == self)
}

// H_C01_recv: one RecvPacket step from an arbitrary receipt / clean-point state, arbitrary
// packet, proof and height, LC answering nondeterministically.
// Carries the keeper-level obligations of C01 (authenticity), C02 (exactly-once) and C11 (relay hop).
func H_C01_recv() {
	w, k, ctx := newWorld()
	p := nondetPacket("p")
	vp.Assume(p.Sequence < 100)
	hasReceipt := vp.Bool("pre.hasReceipt")
	vp.SetIf(hasReceipt, func() { k.SetPacketReceipt(ctx, p.SourceChain, p.DestinationChain, p.Sequence) })
	cp := cleanPre(k, ctx, p.SourceChain, p.DestinationChain)
	proof := vp.Bytes("proof", 0, 1)
	h := nondetHeight("h")
	mark := vp.StoreMark(ctx, "tibc")

	err := k.RecvPacket(ctx, p, proof, h)

	accepted := err == nil || err == sdkerrors.ErrUnauthorized
	proving := p.SourceChain
	if p.DestinationChain == w.self && len(p.RelayChain) > 0 {
		proving = p.RelayChain
	}
	commitment := refCommit(p.Data)
	receiptKey := refReceiptKey(p.SourceChain, p.DestinationChain, p.Sequence)
	commitKey := refCommitmentKey(p.SourceChain, p.DestinationChain, p.Sequence)
	if accepted {
		vp.Reach("recv accepted")
		vp.Assert(okCall(w, 1, proving, h, proof, p.SourceChain, p.DestinationChain, p.Sequence, commitment),
			"C01.1 accepted only after the proving chain's client verified (src,dst,seq,sha256(data)) at the submitted height with the submitted proof")
		vp.Assert(hasClient(w, proving), "C01.1 the proving chain has a registered client")
		vp.Assert(len(p.Data) > 0 && p.Sequence != 0, "C01.1 malformed packets are rejected")
		vp.Assert(involves(p, w.self), "C01.1 packets not involving this chain are rejected")
		vp.Assert(!hasReceipt, "C02.1 a packet with a receipt is not accepted again")
		vp.Assert(p.Sequence > cp, "C02.1 a packet at or below the clean point is not accepted")
		vp.Assert(k.HasPacketReceipt(ctx, p.SourceChain, p.DestinationChain, p.Sequence), "C02.2 acceptance records the receipt of exactly (src,dst,seq)")
		vp.Assert(vp.NumEvents(ctx, packettypes.EventTypeRecvPacket) == 1, "C01.1 one recv_packet event")
		vp.Assert(onlyWrote(ctx, mark, receiptKey, commitKey), "C02.3 a receive writes only this packet's receipt (and, on the relay chain, its forwarded commitment)")
	} else {
		vp.Reach("recv rejected")
		vp.Note(vp.StoreMark(ctx, "tibc") == mark, "diag: rejected receive wrote nothing (keeper level)")
	}
	if !anyOk(w) {
		vp.Assert(!accepted, "C01.2 no successful verification => rejected with an error that is not the route-denied marker")
	}
	// C02.5 liveness: a well-formed, undelivered, uncleaned packet with a verifying proof is accepted
	if !hasReceipt && p.Sequence > cp && len(p.Data) > 0 && involves(p, w.self) && hasClient(w, proving) && allOk(w) {
		if p.RelayChain != w.self || hasClient(w, p.DestinationChain) {
			vp.Assert(accepted, "C02.5 undelivered, uncleaned, well-formed packet with a verifying proof is accepted")
		}
	}
	// C11 relay hop
	fwd := k.GetPacketCommitment(ctx, p.SourceChain, p.DestinationChain, p.Sequence)
	if p.RelayChain == w.self {
		if err == nil {
			vp.Reach("relay hop forwards")
			vp.Assert(vp.And(w.auth, w.authCalls > 0, w.authSrc == p.SourceChain, w.authDst == p.DestinationChain, w.authPort == p.Port),
				"C11.1 forwarded only if the routing rules allow exactly (source, destination, port)")
			vp.Assert(hasClient(w, p.DestinationChain), "C11.1 forwarded only if the destination is known")
			vp.Assert(sameBytes(fwd, commitment), "C11.1 the forwarded commitment is the hash of the unchanged data under the unchanged key")
			ev := packettypes.EventTypeSendPacket
			vp.Assert(vp.And(vp.NumEvents(ctx, ev) == 1,
				vp.EventAttr(ctx, ev, 0, packettypes.AttributeKeySrcChain) == p.SourceChain,
				vp.EventAttr(ctx, ev, 0, packettypes.AttributeKeyDstChain) == p.DestinationChain,
				vp.EventAttr(ctx, ev, 0, packettypes.AttributeKeyRelayChain) == p.RelayChain,
				vp.EventAttr(ctx, ev, 0, packettypes.AttributeKeyPort) == p.Port,
				vp.EventAttr(ctx, ev, 0, packettypes.AttributeKeyData) == string(p.Data),
				vp.EventAttr(ctx, ev, 0, packettypes.AttributeKeySequence) == decimal(p.Sequence)),
				"C11.1 the forwarded packet is announced with identical fields")
		}
		if err == sdkerrors.ErrUnauthorized {
			vp.Reach("relay hop denies route")
			vp.Assert(!w.auth, "C11.2 the route-denied marker is returned only when the rules forbid the route")
			vp.Assert(len(fwd) == 0, "C11.2 a denied packet is not re-committed")
			vp.Assert(vp.NumEvents(ctx, packettypes.EventTypeSendPacket) == 0, "C11.2 a denied packet is not announced for forwarding")
		}
		if accepted && !w.auth {
			vp.Assert(err == sdkerrors.ErrUnauthorized, "C11.2 a forbidden route yields the route-denied marker, never plain success")
		}
	} else if accepted {
		vp.Assert(len(fwd) == 0, "C11.3 no commitment is written when this chain is not the packet's relay chain")
		vp.Assert(err == nil, "C11.2 route-denied marker only on the relay chain")
	}
}
