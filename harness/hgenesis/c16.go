// Package hgenesis: export / re-import of the TIBC core state (C16).
package hgenesis

import (
	"time"

	"github.com/cosmos/cosmos-sdk/codec"
	codectypes "github.com/cosmos/cosmos-sdk/codec/types"
	sdk "github.com/cosmos/cosmos-sdk/types"
	ics23 "github.com/cosmos/ics23/go"

	tibc "github.com/bianjieai/tibc-go/modules/tibc/core"
	clienttypes "github.com/bianjieai/tibc-go/modules/tibc/core/02-client/types"
	packettypes "github.com/bianjieai/tibc-go/modules/tibc/core/04-packet/types"
	commitmenttypes "github.com/bianjieai/tibc-go/modules/tibc/core/23-commitment/types"
	routingtypes "github.com/bianjieai/tibc-go/modules/tibc/core/26-routing/types"
	corekeeper "github.com/bianjieai/tibc-go/modules/tibc/core/keeper"
	tmtypes "github.com/bianjieai/tibc-go/modules/tibc/light-clients/07-tendermint/types"
	"github.com/bianjieai/tibc-go/zzverif/vp"
)

func newCodec() codec.BinaryCodec {
	reg := codectypes.NewInterfaceRegistry()
	clienttypes.RegisterInterfaces(reg)
	tmtypes.RegisterInterfaces(reg)
	return codec.NewProtoCodec(reg)
}

type chain struct {
	ctx sdk.Context
	k   *corekeeper.Keeper
}

func newChain(cdc codec.BinaryCodec) chain {
	ctx := vp.Ctx()
	k := corekeeper.NewKeeper(cdc, vp.StoreKey("tibc"), nil, "gov")
	k.SetRouter(routingtypes.NewRouter())
	return chain{ctx: ctx, k: k}
}

func name(n string) string { return vp.String(n, 2, 2, "ab") }

func tmClient(latest clienttypes.Height) *tmtypes.ClientState {
	return &tmtypes.ClientState{ChainId: "chain-1", TrustLevel: tmtypes.Fraction{Numerator: 1, Denominator: 3},
		TrustingPeriod: time.Hour, UnbondingPeriod: 2 * time.Hour, MaxClockDrift: time.Second, LatestHeight: latest,
		ProofSpecs: []*ics23.ProofSpec{ics23.TendermintSpec}, MerklePrefix: commitmenttypes.NewMerklePrefix([]byte("tibc")), TimeDelay: vp.Uint64("client.delay")}
}

// roundTrip exports chain a and imports the result into a fresh chain.
func roundTrip(cdc codec.BinaryCodec, a chain) chain {
	gs := tibc.ExportGenesis(a.ctx, *a.k)
	b := newChain(cdc)
	tibc.InitGenesis(b.ctx, *b.k, false, gs)
	return b
}

// smallHeight: revision 0..255, height below the stated bound (raw big-endian bytes end up in store keys).
func smallHeight(tag string) clienttypes.Height {
	rev := vp.Uint64(tag + ".rev")
	vp.Assume(rev < 256)
	h := vp.Uint64(tag + ".height")
	vp.Assume(h >= 1 && h < uint64(vp.Bound(1<<8, 1<<16)))
	return clienttypes.NewHeight(rev, h)
}

// H_C16_clients: chain name, client states, consensus states at arbitrary heights, their
// Tendermint metadata (processed time, iteration index) and the relayer registry survive.
func H_C16_clients() {
	cdc := newCodec()
	a := newChain(cdc)
	self := name("self")
	a.k.ClientKeeper.SetChainName(a.ctx, self)
	cn := name("client")
	latest := smallHeight("latest")
	cs := tmClient(latest)
	a.k.ClientKeeper.SetClientState(a.ctx, cn, cs)
	h := smallHeight("h")
	ts := vp.Int64("cons.sec")
	vp.Assume(ts > 0 && ts < 4_000_000_000)
	cons := &tmtypes.ConsensusState{Timestamp: time.Unix(ts, 0).UTC(), Root: commitmenttypes.NewMerkleRoot([]byte{1, 2}), NextValidatorsHash: []byte{3}}
	a.k.ClientKeeper.SetClientConsensusState(a.ctx, cn, h, cons)
	store := a.k.ClientKeeper.ClientStore(a.ctx, cn)
	pt := vp.Uint64("processedTime")
	tmtypes.SetProcessedTime(store, h, pt)
	tmtypes.SetIterationKey(store, h)
	relayer := vp.String("relayer", 3, 3, "xyz")
	a.k.ClientKeeper.RegisterRelayers(a.ctx, cn, []string{relayer})
	// relayers may be registered for a chain before its client exists
	future := name("future.chain")
	vp.Assume(future != cn)
	a.k.ClientKeeper.RegisterRelayers(a.ctx, future, []string{relayer})

	b := roundTrip(cdc, a)

	vp.Reach("client state exported and re-imported")
	vp.Assert(b.k.ClientKeeper.GetChainName(b.ctx) == self, "C16.1 the chain's own name survives")
	got, found := b.k.ClientKeeper.GetClientState(b.ctx, cn)
	vp.Assert(found, "C16.2 every client survives")
	if found {
		gtm, ok := got.(*tmtypes.ClientState)
		vp.Assert(ok && gtm.LatestHeight.RevisionNumber == latest.RevisionNumber && gtm.LatestHeight.RevisionHeight == latest.RevisionHeight && gtm.TimeDelay == cs.TimeDelay,
			"C16.2 a client's state survives unchanged")
	}
	gc, foundC := b.k.ClientKeeper.GetClientConsensusState(b.ctx, cn, h)
	vp.Assert(foundC, "C16.3 every trusted (consensus) state survives, at every height")
	if foundC {
		vp.Assert(gc.GetTimestamp() == cons.GetTimestamp(), "C16.3 a trusted state survives unchanged")
	}
	storeB := b.k.ClientKeeper.ClientStore(b.ctx, cn)
	gpt, okPT := tmtypes.GetProcessedTime(storeB, h)
	vp.Assert(okPT && gpt == pt, "C16.4 the processed-time metadata of every trusted state survives (confirmation delays)")
	vp.Assert(len(tmtypes.GetIterationKey(storeB, h)) > 0, "C16.5 the ordered index of trusted states survives (pruning / ordered lookup)")
	vp.Assert(b.k.ClientKeeper.AuthRelayer(b.ctx, cn, relayer), "C16.6 the relayer registry survives")
	vp.Assert(b.k.ClientKeeper.AuthRelayer(b.ctx, future, relayer), "C16.6 relayers registered for a chain whose client does not exist yet survive too")
}

// H_C16_packets: commitments, acknowledgements, receipts, send counters, clean points, ack
// high-water marks and routing rules survive.
func H_C16_packets() {
	cdc := newCodec()
	a := newChain(cdc)
	pk := a.k.PacketKeeper
	src, dst := name("src"), name("dst")
	seq := vp.Uint64("seq")
	vp.Assume(seq >= 1 && seq < 100)
	hash := packettypes.CommitAcknowledgement(vp.Bytes("data", 1, 1))
	kinds := vp.Choice("kind", 7)
	var clean, maxAck, next uint64
	switch kinds {
	case 0:
		pk.SetPacketCommitment(a.ctx, src, dst, seq, hash)
	case 1:
		pk.SetPacketAcknowledgement(a.ctx, src, dst, seq, hash)
	case 2:
		pk.SetPacketReceipt(a.ctx, src, dst, seq)
	case 3:
		next = vp.Uint64("next")
		pk.SetNextSequenceSend(a.ctx, src, dst, next)
	case 4:
		clean = vp.Uint64("cleanPoint")
		vp.Assume(clean >= 1)
		pk.SetCleanPacketCommitment(a.ctx, src, dst, clean)
	case 5:
		maxAck = vp.Uint64("maxAck")
		vp.Assume(maxAck >= 1)
		pk.SetMaxAckSequence(a.ctx, src, dst, maxAck)
	case 6:
		_ = a.k.RoutingKeeper.SetRoutingRules(a.ctx, []string{"aa,*,n"})
	}

	b := roundTrip(cdc, a)
	pb := b.k.PacketKeeper

	vp.Reach("packet state exported and re-imported")
	switch kinds {
	case 0:
		vp.Assert(vp.BytesEq(pb.GetPacketCommitment(b.ctx, src, dst, seq), hash), "C16.7 pending commitments survive")
	case 1:
		got, ok := pb.GetPacketAcknowledgement(b.ctx, src, dst, seq)
		vp.Assert(ok && vp.BytesEq(got, hash), "C16.7 recorded acknowledgements survive")
	case 2:
		vp.Assert(pb.HasPacketReceipt(b.ctx, src, dst, seq), "C16.8 receipts (replay protection) survive")
	case 3:
		vp.Assert(pb.GetNextSequenceSend(b.ctx, src, dst) == pb2(next), "C16.9 send counters survive")
	case 4:
		vp.Assert(be(pb.GetCleanPacketCommitment(b.ctx, src, dst)) == clean, "C16.10 clean points survive (replay protection after cleaning)")
	case 5:
		vp.Assert(pb.GetMaxAckSequence(b.ctx, src, dst) == maxAck, "C16.11 acknowledged high-water marks survive (clean requests stay acceptable)")
	case 6:
		vp.Assert(b.k.RoutingKeeper.Authenticate(b.ctx, "aa", "zz", "n") && !b.k.RoutingKeeper.Authenticate(b.ctx, "ab", "zz", "n"), "C16.12 routing rules survive")
	}
}

func pb2(n uint64) uint64 { return n }

func be(bz []byte) uint64 {
	if len(bz) != 8 {
		return 0
	}
	var n uint64
	for _, b := range bz {
		n = n<<8 | uint64(b)
	}
	return n
}
