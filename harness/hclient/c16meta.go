package hclient

// C16 for BSC and ETH clients: the client-type specific metadata kept beside the trusted states
// (BSC: recent signers, pending validator set; ETH: header index, state-root index) survives a
// genesis export / re-import.

import (
	"github.com/cosmos/cosmos-sdk/codec"
	sdk "github.com/cosmos/cosmos-sdk/types"
	"github.com/ethereum/go-ethereum/common"

	tibc "github.com/bianjieai/tibc-go/modules/tibc/core"
	clienttypes "github.com/bianjieai/tibc-go/modules/tibc/core/02-client/types"
	routingtypes "github.com/bianjieai/tibc-go/modules/tibc/core/26-routing/types"
	corekeeper "github.com/bianjieai/tibc-go/modules/tibc/core/keeper"
	bsctypes "github.com/bianjieai/tibc-go/modules/tibc/light-clients/08-bsc/types"
	ethtypes "github.com/bianjieai/tibc-go/modules/tibc/light-clients/09-eth/types"
	"github.com/bianjieai/tibc-go/zzverif/vp"
)

type gchain struct {
	ctx sdk.Context
	k   *corekeeper.Keeper
}

func newGChain(cdc codec.BinaryCodec) gchain {
	ctx := vp.Ctx()
	k := corekeeper.NewKeeper(cdc, vp.StoreKey("tibc"), nil, "gov")
	k.SetRouter(routingtypes.NewRouter())
	return gchain{ctx: ctx, k: k}
}

func gRoundTrip(cdc codec.BinaryCodec, a gchain) gchain {
	gs := tibc.ExportGenesis(a.ctx, *a.k)
	b := newGChain(cdc)
	tibc.InitGenesis(b.ctx, *b.k, false, gs)
	return b
}

func twoDigitHeight(tag string) clienttypes.Height {
	h := vp.Uint64(tag)
	vp.Assume(h >= 10 && h < 100)
	return clienttypes.NewHeight(0, h)
}

// H_C16_bsc_meta: a BSC client between an epoch block and the hand-over of the validator set.
func H_C16_bsc_meta() {
	cdc := bscCodec()
	a := newGChain(cdc)
	cn := vp.String("client", 2, 2, "ab")
	latest := twoDigitHeight("latest")
	cs := &bsctypes.ClientState{Header: bsctypes.Header{Height: latest, Difficulty: 2, Extra: make([]byte, 97), Bloom: make([]byte, 256)},
		ChainId: 56, Epoch: 200, BlockInteval: 3, Validators: [][]byte{make([]byte, 20)}, ContractAddress: make([]byte, 20), TrustingPeriod: 1000}
	a.k.ClientKeeper.SetClientState(a.ctx, cn, cs)
	store := a.k.ClientKeeper.ClientStore(a.ctx, cn)
	sh := twoDigitHeight("signer.height")
	signer := vp.Bytes("signer", 20, 20)
	bsctypes.SetSigner(store, bsctypes.Signer{Height: sh, Validator: signer})
	pending := vp.Bytes("pending.validator", 20, 20)
	hasPending := vp.Bool("has.pending")
	if hasPending {
		bsctypes.SetPendingValidators(store, cdc, [][]byte{pending})
	}

	b := gRoundTrip(cdc, a)

	vp.Reach("BSC client exported and re-imported")
	got, found := b.k.ClientKeeper.GetClientState(b.ctx, cn)
	vp.Assert(found, "C16.2 every client survives (BSC)")
	if found {
		g, ok := got.(*bsctypes.ClientState)
		vp.Assert(ok && g.Header.Height.RevisionHeight == latest.RevisionHeight, "C16.2 a client's state survives unchanged (BSC)")
	}
	storeB := b.k.ClientKeeper.ClientStore(b.ctx, cn)
	rs, err := bsctypes.GetRecentSigners(storeB)
	vp.Assert(err == nil && len(rs) == 1 && rs[0].Height.RevisionHeight == sh.RevisionHeight && vp.BytesEq(rs[0].Validator, signer),
		"C16.4 the recent-signer metadata of a BSC client survives")
	if hasPending {
		vs := bsctypes.GetPendingValidators(cdc, storeB)
		vp.Assert(len(vs.Validators) == 1 && vp.BytesEq(vs.Validators[0], pending), "C16.4 the pending validator set of a BSC client survives")
	} else {
		vp.Assert(!storeB.Has([]byte(bsctypes.PrefixPendingValidators)), "C16.4 no pending validator set appears from nowhere (BSC)")
	}
}

// H_C16_eth_meta: an ETH client with one indexed header and its state-root index entry.
func H_C16_eth_meta() {
	cdc := ethCodec()
	a := newGChain(cdc)
	cn := vp.String("client", 2, 2, "ab")
	latest := twoDigitHeight("latest")
	cs := &ethtypes.ClientState{Header: ethtypes.Header{Height: latest, Difficulty: "1", BaseFee: "1"}, ChainId: 1, ContractAddress: make([]byte, 20), TrustingPeriod: 1000}
	a.k.ClientKeeper.SetClientState(a.ctx, cn, cs)
	store := a.k.ClientKeeper.ClientStore(a.ctx, cn)
	h := vp.Uint64("indexed.height")
	vp.Assume(h >= 10 && h < 100)
	hash := common.BytesToHash(vp.Bytes("header.hash", 32, 32))
	root := common.BytesToHash(vp.Bytes("state.root", 32, 32))
	hdr := vp.Bytes("header.bytes", 2, 2)
	store.Set(ethtypes.EthHeaderIndexKey(hash, h), hdr)
	ethtypes.SetEthConsensusRoot(store, h, root, hash)

	b := gRoundTrip(cdc, a)

	vp.Reach("ETH client exported and re-imported")
	_, found := b.k.ClientKeeper.GetClientState(b.ctx, cn)
	vp.Assert(found, "C16.2 every client survives (ETH)")
	storeB := b.k.ClientKeeper.ClientStore(b.ctx, cn)
	vp.Assert(vp.BytesEq(storeB.Get(ethtypes.EthHeaderIndexKey(hash, h)), hdr), "C16.4 the header index of an ETH client survives (fork handling needs the parents)")
	vp.Assert(vp.BytesEq(ethtypes.GetHeaderIndexKeyByEthConsensusRoot(storeB, root, h), ethtypes.EthHeaderIndexKey(hash, h)),
		"C16.4 the state-root index of an ETH client survives (pruning needs it)")
}
