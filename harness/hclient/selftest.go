package hclient

import (
	"fmt"
	"strconv"
	"strings"

	clienttypes "github.com/bianjieai/tibc-go/modules/tibc/core/02-client/types"
	"github.com/bianjieai/tibc-go/zzverif/vp"
)

// H_selftest_decimal: engine self-test (decimal formatting / parsing / maps over symbolic integers).
func H_selftest_decimal() {
	h := vp.Uint64("h")
	vp.Assume(h >= 11 && h <= 97)
	s := fmt.Sprintf("%s/%s", "recentSingers", clienttypes.NewHeight(0, h))
	s2 := fmt.Sprintf("%s/%s", "recentSingers", clienttypes.NewHeight(0, h-1))
	keys := strings.Split(s, "/")
	ph, err := clienttypes.ParseHeight(keys[1])
	vp.Assert(err == nil && ph.RevisionHeight == h, "selftest: ParseHeight(Height.String()) round trip")
	v, err2 := strconv.ParseUint(strings.Split(keys[1], "-")[1], 10, 64)
	vp.Assert(err2 == nil && v == h, "selftest: ParseUint(decimal) round trip")
	m := map[uint64]int{}
	ph2, _ := clienttypes.ParseHeight(strings.Split(s2, "/")[1])
	m[ph2.RevisionHeight] = 2
	m[ph.RevisionHeight] = 1
	found := false
	n := 0
	for k := range m {
		n++
		if k > h-1 {
			found = true
		}
	}
	vp.Reach("selftest done")
	vp.Assert(n == 2 && found, "selftest: map over symbolic keys")
}
