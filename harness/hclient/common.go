// Package hclient: harnesses for the light clients (07-tendermint, 08-bsc, 09-eth):
// state-proof verification (C08), status / expiry (C14), header updates (C07, C17, C18).
package hclient

import (
	storetypes "cosmossdk.io/store/types"
	"github.com/cosmos/cosmos-sdk/codec"
	sdk "github.com/cosmos/cosmos-sdk/types"
	proto "github.com/cosmos/gogoproto/proto"

	clienttypes "github.com/bianjieai/tibc-go/modules/tibc/core/02-client/types"
	commitmenttypes "github.com/bianjieai/tibc-go/modules/tibc/core/23-commitment/types"
	"github.com/bianjieai/tibc-go/modules/tibc/core/exported"
	"github.com/bianjieai/tibc-go/zzverif/vp"
)

// regCodec: interface values are kept in a registry and marshalled to a one-byte handle; the
// "decoding" of proof bytes is an oracle prepared by the harness (the proof object it decodes to,
// or a decoding error). Assumption: the real protobuf codec is a faithful inverse pair.
type regCodec struct {
	codec.BinaryCodec
	objs        []proto.Message
	proofBytes  []byte
	proofObj    *commitmenttypes.MerkleProof
	proofBroken bool
}

func (c *regCodec) MarshalInterface(i proto.Message) ([]byte, error) {
	c.objs = append(c.objs, i)
	return []byte{byte(len(c.objs))}, nil
}

func (c *regCodec) UnmarshalInterface(bz []byte, ptr interface{}) error {
	if len(bz) != 1 || int(bz[0]) < 1 || int(bz[0]) > len(c.objs) {
		return clienttypes.ErrInvalidConsensus
	}
	o := c.objs[int(bz[0])-1]
	switch p := ptr.(type) {
	case *exported.ClientState:
		v, ok := o.(exported.ClientState)
		if !ok {
			return clienttypes.ErrInvalidConsensus
		}
		*p = v
	case *exported.ConsensusState:
		v, ok := o.(exported.ConsensusState)
		if !ok {
			return clienttypes.ErrInvalidConsensus
		}
		*p = v
	default:
		return clienttypes.ErrInvalidConsensus
	}
	return nil
}

func (c *regCodec) Unmarshal(bz []byte, ptr proto.Message) error {
	if p, ok := ptr.(*commitmenttypes.MerkleProof); ok {
		if c.proofBroken || c.proofObj == nil || !vp.BytesEq(bz, c.proofBytes) {
			return commitmenttypes.ErrInvalidProof
		}
		*p = *c.proofObj
		return nil
	}
	return commitmenttypes.ErrInvalidProof
}

type ctxT = sdk.Context

func clientStore(ctx sdk.Context) storetypes.KVStore { return ctx.KVStore(vp.StoreKey("tibc")) }

func nondetHeight(tag string) clienttypes.Height {
	return clienttypes.NewHeight(vp.Uint64(tag+".rev"), vp.Uint64(tag+".height"))
}
