package hclient

import (
	"strconv"

	"github.com/cosmos/cosmos-sdk/codec"
	codectypes "github.com/cosmos/cosmos-sdk/codec/types"

	clienttypes "github.com/bianjieai/tibc-go/modules/tibc/core/02-client/types"
	host "github.com/bianjieai/tibc-go/modules/tibc/core/24-host"
	ethtypes "github.com/bianjieai/tibc-go/modules/tibc/light-clients/09-eth/types"
	"github.com/bianjieai/tibc-go/zzverif/oracle"
	"github.com/bianjieai/tibc-go/zzverif/vp"
)

// H_C18_gaslimit: the gas-limit rule against its arithmetic statement, all 64-bit pairs.
func H_C18_gaslimit() {
	parent, header := vp.Uint64("parent.gasLimit"), vp.Uint64("header.gasLimit")
	vp.Assume(parent < 1<<63 && header < 1<<63) // gas limits are capped at 2^63-1 by the protocol
	err := ethtypes.VerifyGaslimit(parent, header)
	var diff uint64
	if parent > header {
		diff = parent - header
	} else {
		diff = header - parent
	}
	want := diff < parent/1024 && header >= 5000
	vp.Reach("gas limit rule evaluated")
	vp.Assert((err == nil) == want, "C18.2 the gas limit is accepted iff it moves by less than parent/1024 and stays at or above 5000")
}

func ethCodec() codec.BinaryCodec {
	reg := codectypes.NewInterfaceRegistry()
	clienttypes.RegisterInterfaces(reg)
	ethtypes.RegisterInterfaces(reg)
	return codec.NewProtoCodec(reg)
}

// H_C18_eth_header: one header against a client whose latest header is a fixed post-London
// parent (gas used exactly at target, so the expected base fee is the parent's; number below the
// difficulty-bomb delay). The child is valid up to one deviation; the ethash seal computation is
// replaced by an oracle (source overlay of verifyCascadingFields).
func H_C18_eth_header() {
	sec := vp.Int64("now.sec")
	vp.Assume(sec > 2_000_000 && sec < 4_000_000_000)
	ctx := vp.WithBlockTime(vp.Ctx(), sec, 0)
	store := clientStore(ctx)
	cdc := ethCodec()
	const parentDifficulty = 8_000_000_000
	const ptime = uint64(1_700_000_000) // concrete: symbolic 256-bit division by 9 in the difficulty rule is out of reach
	parent := &ethtypes.Header{ParentHash: make([]byte, 32), UncleHash: emptyUncleHash, Coinbase: make([]byte, 20), Root: []byte{1}, TxHash: []byte{2}, ReceiptHash: []byte{3},
		Bloom: make([]byte, 256), Difficulty: strconv.FormatUint(parentDifficulty, 10), Height: clienttypes.NewHeight(0, 1000), GasLimit: 30_000_000, GasUsed: 15_000_000,
		Time: ptime, Extra: []byte{}, MixDigest: make([]byte, 32), Nonce: 1, BaseFee: "1000000000"}
	cs := &ethtypes.ClientState{Header: *parent, ChainId: 1, ContractAddress: make([]byte, 20), TrustingPeriod: 1 << 40}
	pbz, _ := cdc.MarshalInterface(parent)
	ethtypes.SetEthHeaderIndex(store, *parent, pbz)
	bz, _ := clienttypes.MarshalConsensusState(cdc, &ethtypes.ConsensusState{Timestamp: parent.Time, Number: parent.Height, Root: parent.Root})
	store.Set(host.ConsensusStateKey(parent.Height), bz)

	const (
		fNone = iota
		fUnknownParent
		fTimeNotLater
		fTimeTooFarAhead
		fGasLimit
		fBaseFee
		fDifficulty
		fSealInvalid
		fAlreadyStored
		fNumber
		nFaults
	)
	fault := vp.Choice("fault", nFaults)
	number := uint64(1001)
	if fault == fNumber {
		number = []uint64{1000, 1002, 1003}[vp.Choice("header.number", 3)] // anything but the parent's number plus one
	}
	dt := []uint64{1, 8, 9, 17, 18, 1000}[vp.Choice("header.time.delta", 6)]
	htime := ptime + dt
	if fault == fTimeNotLater {
		htime = ptime - uint64(vp.Choice("header.time.back", 2))
	}
	if fault == fTimeTooFarAhead {
		vp.Assume(uint64(sec)+15 < htime) // the chain's clock is more than 15 s behind the header
	} else {
		vp.Assume(uint64(sec)+15 >= htime)
	}
	// reference difficulty (Byzantium rule without bomb): parent + parent/2048 * max(1 - (t - pt)/9, -99)
	adj := int64(1) - int64((htime-ptime)/9)
	if adj < -99 {
		adj = -99
	}
	expected := uint64(int64(parentDifficulty) + int64(parentDifficulty/2048)*adj)
	difficulty := expected
	if fault == fDifficulty {
		difficulty = expected + 1 - 2*uint64(vp.Choice("difficulty.down", 2))
	}
	gasLimit := uint64(30_000_000)
	if fault == fGasLimit {
		gasLimit = vp.Uint64("header.gasLimit")
		vp.Assume(gasLimit < 1<<63)
	}
	baseFee := "1000000000"
	if fault == fBaseFee {
		baseFee = "1000000001"
	}
	phash := parent.Hash()
	ph := phash[:]
	if fault == fUnknownParent {
		ph = vp.Bytes("header.parentHash", 32, 32)
	}
	h := &ethtypes.Header{ParentHash: ph, UncleHash: emptyUncleHash, Coinbase: make([]byte, 20), Root: []byte{4}, TxHash: []byte{5}, ReceiptHash: []byte{6},
		Bloom: make([]byte, 256), Difficulty: strconv.FormatUint(difficulty, 10), Height: clienttypes.NewHeight(0, number), GasLimit: gasLimit, GasUsed: 1,
		Time: htime, Extra: []byte{}, MixDigest: make([]byte, 32), Nonce: 2, BaseFee: baseFee}
	if fault == fAlreadyStored {
		hb, _ := cdc.MarshalInterface(h)
		ethtypes.SetEthHeaderIndex(store, *h, hb)
	}
	sealOK := fault != fSealInvalid
	oracle.EthashVerifySeal = func(header interface{}) (bool, error) {
		if sealOK {
			return true, nil
		}
		return true, ethtypes.ErrHeader
	}

	newCS, newCons, err := cs.CheckHeaderAndUpdateState(ctx, cdc, store, h)

	var gdiff uint64
	if gasLimit > 30_000_000 {
		gdiff = gasLimit - 30_000_000
	} else {
		gdiff = 30_000_000 - gasLimit
	}
	gasOK := gdiff < 30_000_000/1024 && gasLimit >= 5000
	parentKnown := vp.BytesEq(ph, phash[:])
	timeOK := htime > ptime && htime <= uint64(sec)+15
	if err == nil {
		vp.Reach("eth header accepted")
		vp.Assert(parentKnown, "C18.1 accepted only if its parent is a stored header")
		vp.Assert(number == 1001, "C18.1 accepted only if its number is its parent's number plus one")
		vp.Assert(fault != fAlreadyStored, "C18.1 a header the client already has is refused")
		vp.Assert(timeOK, "C18.1 accepted only if its time is later than the parent's and at most 15 s ahead of chain time")
		vp.Assert(gasOK && baseFee == "1000000000", "C18.1 accepted only if gas limit and base fee follow EIP-1559 from the parent")
		vp.Assert(difficulty == expected, "C18.1 accepted only with the prescribed difficulty")
		vp.Assert(sealOK, "C18.1 accepted only with a valid proof-of-work seal")
		ncs, _ := newCS.(*ethtypes.ClientState)
		ncons, _ := newCons.(*ethtypes.ConsensusState)
		vp.Assert(ncs != nil && ncs.Header.Height.RevisionHeight == 1001 && ncs.Header.Time == htime, "C18.3 after acceptance of a child of the head the latest header is that header")
		vp.Assert(ncons != nil && ncons.Timestamp == htime && vp.BytesEq(ncons.Root, h.Root), "C18.3 the consensus state for its height is that header's")
	} else {
		vp.Reach("eth header rejected")
	}
	if parentKnown && number == 1001 && fault != fAlreadyStored && timeOK && gasOK && baseFee == "1000000000" && difficulty == expected && sealOK {
		vp.Assert(err == nil, "C18.4 a valid child of the stored head is accepted")
	}
}

// refDifficulty: Byzantium difficulty without bomb for a parent without uncles.
func refDifficulty(parentDiff, ptime, htime uint64) uint64 {
	adj := int64(1) - int64((htime-ptime)/9)
	if adj < -99 {
		adj = -99
	}
	return uint64(int64(parentDiff) + int64(parentDiff/2048)*adj)
}

func mkEthChild(parent *ethtypes.Header, dt uint64, tag byte) *ethtypes.Header {
	pd, _ := strconv.ParseUint(parent.Difficulty, 10, 64)
	ph := parent.Hash()
	return &ethtypes.Header{ParentHash: ph[:], UncleHash: emptyUncleHash, Coinbase: make([]byte, 20), Root: []byte{tag}, TxHash: []byte{5}, ReceiptHash: []byte{6},
		Bloom: make([]byte, 256), Difficulty: strconv.FormatUint(refDifficulty(pd, parent.Time, parent.Time+dt), 10), Height: clienttypes.NewHeight(0, parent.Height.RevisionHeight+1),
		GasLimit: 30_000_000, GasUsed: 15_000_000, Time: parent.Time + dt, Extra: []byte{}, MixDigest: make([]byte, 32), Nonce: uint64(tag), BaseFee: "1000000000"}
}

// H_C18_eth_fork: G - A1 - A2 is synced; then a competing header is submitted: a sibling of the
// head (B2, child of A1), a sibling below the head (B1, child of G) or a child of the head (A3).
// Afterwards (with the consensus state stored as the client keeper does) the consensus states at
// the latest height and the one below must be those of the latest header and of its parent.
func H_C18_eth_fork() {
	ctx := vp.WithBlockTime(vp.Ctx(), 1_800_000_000, 0)
	store := clientStore(ctx)
	cdc := ethCodec()
	oracle.EthashVerifySeal = func(header interface{}) (bool, error) { return true, nil }
	g := &ethtypes.Header{ParentHash: make([]byte, 32), UncleHash: emptyUncleHash, Coinbase: make([]byte, 20), Root: []byte{1}, TxHash: []byte{2}, ReceiptHash: []byte{3},
		Bloom: make([]byte, 256), Difficulty: "8000000000", Height: clienttypes.NewHeight(0, 1000), GasLimit: 30_000_000, GasUsed: 15_000_000,
		Time: 1_700_000_000, Extra: []byte{}, MixDigest: make([]byte, 32), Nonce: 1, BaseFee: "1000000000"}
	var cs *ethtypes.ClientState = &ethtypes.ClientState{Header: *g, ChainId: 1, ContractAddress: make([]byte, 20), TrustingPeriod: 1 << 40}
	gb, _ := cdc.MarshalInterface(g)
	ethtypes.SetEthHeaderIndex(store, *g, gb)
	setCons := func(h *ethtypes.Header) {
		bz, _ := clienttypes.MarshalConsensusState(cdc, &ethtypes.ConsensusState{Timestamp: h.Time, Number: h.Height, Root: h.Root})
		store.Set(host.ConsensusStateKey(h.Height), bz)
	}
	setCons(g)
	submit := func(h *ethtypes.Header) error {
		ncs, ncons, err := cs.CheckHeaderAndUpdateState(ctx, cdc, store, h)
		if err != nil {
			return err
		}
		cs = ncs.(*ethtypes.ClientState)
		bz, _ := clienttypes.MarshalConsensusState(cdc, ncons) // what clientkeeper.UpdateClient stores
		store.Set(host.ConsensusStateKey(h.Height), bz)
		return nil
	}
	a1 := mkEthChild(g, 12, 0xA1)
	a2 := mkEthChild(a1, 12, 0xA2)
	vp.Assume(submit(a1) == nil && submit(a2) == nil)
	var x, xParent *ethtypes.Header
	switch vp.Choice("competing.header", 3) {
	case 0:
		x, xParent = mkEthChild(a2, 13, 0xA3), a2
	case 1:
		x, xParent = mkEthChild(a1, 13, 0xB2), a1
	default:
		x, xParent = mkEthChild(g, 13, 0xB1), g
	}
	err := submit(x)
	vp.Reach("competing header submitted")
	vp.Assert(err == nil, "C18.4 a valid child of any stored header is accepted")
	if err != nil {
		return
	}
	latest := cs.Header
	// which stored header is the parent of the latest header?
	lp := xParent
	if !vp.BytesEq(latest.Root, x.Root) {
		lp = a1 // the client kept A2 as its head
	}
	top, errTop := ethtypes.GetConsensusState(store, cdc, latest.Height)
	below, errBelow := ethtypes.GetConsensusState(store, cdc, clienttypes.NewHeight(0, latest.Height.RevisionHeight-1))
	vp.Assert(errTop == nil && vp.BytesEq(top.Root, latest.Root), "C18.5 the consensus state at the latest height is the latest header's")
	vp.Assert(errBelow == nil && vp.BytesEq(below.Root, lp.Root), "C18.5 the consensus state below the latest height is that of the latest header's parent (one parent-linked chain)")
}
