package hclient

import (
	"time"

	ics23 "github.com/cosmos/ics23/go"

	clienttypes "github.com/bianjieai/tibc-go/modules/tibc/core/02-client/types"
	commitmenttypes "github.com/bianjieai/tibc-go/modules/tibc/core/23-commitment/types"
	host "github.com/bianjieai/tibc-go/modules/tibc/core/24-host"
	tmtypes "github.com/bianjieai/tibc-go/modules/tibc/light-clients/07-tendermint/types"
	"github.com/bianjieai/tibc-go/zzverif/vp"
)

// leafProof is a genuine ICS-23 existence proof of (key,value) in a one-leaf simple Merkle tree
// (TendermintSpec). Trees with inner nodes are outside the bound; the real ics23 code is executed.
func leafProof(key, value []byte) *ics23.CommitmentProof {
	return &ics23.CommitmentProof{Proof: &ics23.CommitmentProof_Exist{Exist: &ics23.ExistenceProof{
		Key: key, Value: value, Leaf: ics23.TendermintSpec.LeafSpec,
	}}}
}

func rootOf(p *ics23.CommitmentProof) []byte {
	r, err := p.Calculate()
	if err != nil {
		return nil
	}
	return r
}

type tmWorld struct {
	cs      tmtypes.ClientState
	cdc     *regCodec
	latest  clienttypes.Height
	delay   uint64
	nowNs   uint64
	hasCons bool
	hasPT   bool
	pt      uint64
	root    []byte
}

const storePrefix = "tibc"

// H_C08_tm_commitment / _ack / _clean: Tendermint verification of a packet commitment, an
// acknowledgement and a clean point against an arbitrary client store, proof and height.
func H_C08_tm_commitment() { tmVerify(1) }
func H_C08_tm_ack()        { tmVerify(2) }
func H_C08_tm_clean()      { tmVerify(3) }

func tmVerify(kind int) {
	ctx := vp.Ctx()
	sec := vp.Int64("now.sec")
	vp.Assume(sec > 0 && sec < 4_000_000_000)
	nsec := vp.Uint32("now.nsec")
	vp.Assume(nsec < 1_000_000_000)
	ctx = vp.WithBlockTime(ctx, sec, nsec)
	nowNs := uint64(sec)*1_000_000_000 + uint64(nsec)
	store := clientStore(ctx)
	cdc := &regCodec{}
	latest := nondetHeight("latest")
	delay := vp.Uint64("delay")
	vp.Assume(delay < 1<<62)
	cs := tmtypes.ClientState{
		ChainId: "chain-1", TrustingPeriod: time.Hour, UnbondingPeriod: 2 * time.Hour, MaxClockDrift: time.Second,
		LatestHeight: latest, ProofSpecs: []*ics23.ProofSpec{ics23.TendermintSpec, ics23.TendermintSpec},
		MerklePrefix: commitmenttypes.NewMerklePrefix([]byte(storePrefix)), TimeDelay: delay,
	}
	h := nondetHeight("h")
	src, dst := vp.String("src", 2, 2, "ab+"), vp.String("dst", 2, 2, "ab+") // '+' is legal in chain names and is special to URL query (not path) escaping
	seq := vp.Uint64("seq")
	vp.Assume(seq < 100)
	value := vp.Bytes("value", 0, 2)
	var path string
	expected := value
	switch kind {
	case 1:
		path = refCommitmentPath(src, dst, seq)
	case 2:
		path = refAckPath(src, dst, seq)
	default:
		path = refCleanPath(src, dst)
		expected = be8(seq)
	}

	// One fault at a time (or none): which ingredient of an otherwise genuine verification is wrong.
	const (
		fNone = iota
		fOtherKey
		fOtherValue
		fOtherStore
		fOtherRoot
		fNoConsensusState
		fConsensusAtOtherHeight
		fNoProcessedTime
		fTruncated
		fReordered
		fUndecodable
		fNonExistence
		nFaults
	)
	fault := vp.Choice("fault", nFaults)
	provenKey := []byte(path)
	if fault == fOtherKey {
		provenKey = []byte(vp.String("proof.key", len(path), len(path), "abcdefghijklmnopqrstuvwxyz/0123456789"))
	}
	provenValue := expected
	if fault == fOtherValue {
		provenValue = vp.Bytes("proof.value", 1, 2)
	}
	var p0, p1 *ics23.CommitmentProof
	storeKey := []byte(storePrefix)
	if fault == fOtherStore {
		storeKey = []byte(vp.String("proof.store", 4, 4, "tibcx"))
	}
	if len(provenValue) > 0 {
		p0 = leafProof(provenKey, provenValue)
		p1 = leafProof(storeKey, rootOf(p0))
	}
	proofBytes := vp.Bytes("proofBytes", 0, 1)
	cdc.proofBytes = proofBytes
	if p0 != nil {
		switch fault {
		case fTruncated:
			cdc.proofObj = &commitmenttypes.MerkleProof{Proofs: []*ics23.CommitmentProof{p0}}
		case fReordered:
			cdc.proofObj = &commitmenttypes.MerkleProof{Proofs: []*ics23.CommitmentProof{p1, p0}}
		case fNonExistence:
			ne := &ics23.CommitmentProof{Proof: &ics23.CommitmentProof_Nonexist{Nonexist: &ics23.NonExistenceProof{Key: provenKey}}}
			cdc.proofObj = &commitmenttypes.MerkleProof{Proofs: []*ics23.CommitmentProof{ne, p1}}
		default:
			cdc.proofObj = &commitmenttypes.MerkleProof{Proofs: []*ics23.CommitmentProof{p0, p1}}
		}
	}
	cdc.proofBroken = fault == fUndecodable
	shapeOK := fault != fTruncated && fault != fReordered && fault != fNonExistence && fault != fUndecodable

	// the client store
	root := []byte{}
	if p1 != nil {
		root = rootOf(p1)
	}
	if fault == fOtherRoot {
		genuineRoot := root
		root = vp.Bytes("store.root", 32, 32)
		vp.Assume(!vp.BytesEq(root, genuineRoot)) // another root: nobody can choose bytes equal to a SHA-256 image
	}
	consAt := h
	if fault == fConsensusAtOtherHeight {
		consAt = nondetHeight("store.otherHeight")
	}
	hasCons := fault != fNoConsensusState
	if hasCons {
		bz, _ := clienttypes.MarshalConsensusState(cdc, &tmtypes.ConsensusState{Timestamp: time.Unix(1, 0), Root: commitmenttypes.NewMerkleRoot(root)})
		store.Set(host.ConsensusStateKey(consAt), bz)
	}
	hasPT := fault != fNoProcessedTime
	pt := vp.Uint64("store.processedTime")
	vp.Assume(pt < 1<<62)
	if hasPT {
		tmtypes.SetProcessedTime(store, consAt, pt)
	}

	var err error
	switch kind {
	case 1:
		err = cs.VerifyPacketCommitment(ctx, store, cdc, h, proofBytes, src, dst, seq, value)
	case 2:
		err = cs.VerifyPacketAcknowledgement(ctx, store, cdc, h, proofBytes, src, dst, seq, value)
	default:
		err = cs.VerifyPacketCleanCommitment(ctx, store, cdc, h, proofBytes, src, dst, seq)
	}

	sameHeight := consAt.RevisionNumber == h.RevisionNumber && consAt.RevisionHeight == h.RevisionHeight
	genuine := shapeOK && p0 != nil && vp.BytesEq(provenKey, []byte(path)) && vp.BytesEq(provenValue, expected) &&
		vp.BytesEq(storeKey, []byte(storePrefix)) && vp.BytesEq(root, rootOf(p1))
	heightOK := !latest.LT(h)
	stateOK := hasCons && sameHeight
	delayOK := hasPT && sameHeight && pt+delay <= nowNs
	if err == nil {
		vp.Reach("verification succeeded")
		vp.Assert(heightOK, "C08.1 succeeds only if the proof height is not above the client's latest height")
		vp.Assert(stateOK, "C08.1 succeeds only against the consensus state recorded at the proof height")
		vp.Assert(delayOK, "C08.1 succeeds only after the confirmation delay since that state was recorded has elapsed")
		vp.Assert(genuine, "C08.1 succeeds only if the proof shows the claimed value under the protocol key in the store whose root the client recorded")
		vp.Assert(len(expected) > 0, "C08.1 an empty value is never proven")
	} else {
		vp.Reach("verification failed")
	}
	if heightOK && stateOK && delayOK && genuine && len(proofBytes) > 0 {
		vp.Assert(err == nil, "C08.2 a genuine proof of the stored value at a known, old-enough height verifies (completeness)")
	}
}

func be8(n uint64) []byte {
	b := make([]byte, 8)
	for i := 0; i < 8; i++ {
		b[7-i] = byte(n >> (8 * uint(i)))
	}
	return b
}
