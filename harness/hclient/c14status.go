package hclient

import (
	"time"

	ics23 "github.com/cosmos/ics23/go"

	clienttypes "github.com/bianjieai/tibc-go/modules/tibc/core/02-client/types"
	commitmenttypes "github.com/bianjieai/tibc-go/modules/tibc/core/23-commitment/types"
	host "github.com/bianjieai/tibc-go/modules/tibc/core/24-host"
	"github.com/bianjieai/tibc-go/modules/tibc/core/exported"
	tmtypes "github.com/bianjieai/tibc-go/modules/tibc/light-clients/07-tendermint/types"
	bsctypes "github.com/bianjieai/tibc-go/modules/tibc/light-clients/08-bsc/types"
	ethtypes "github.com/bianjieai/tibc-go/modules/tibc/light-clients/09-eth/types"
	"github.com/bianjieai/tibc-go/zzverif/vp"
)

// blockTime returns a context at an arbitrary block time (any sub-second part) and that time.
func blockTime() (ctxT, int64, uint32) {
	sec := vp.Int64("now.sec")
	vp.Assume(sec > 0 && sec < 4_000_000_000)
	nsec := vp.Uint32("now.nsec")
	vp.Assume(nsec < 1_000_000_000)
	return vp.WithBlockTime(vp.Ctx(), sec, nsec), sec, nsec
}

// H_C14_status_tm: Tendermint client, age measured in nanoseconds.
func H_C14_status_tm() {
	ctx, sec, nsec := blockTime()
	store := clientStore(ctx)
	cdc := &regCodec{}
	latest := nondetHeight("latest")
	// bound: the trusting period is one of these concrete values (symbolic 64-bit division by 10^9
	// inside time.Time.Add is out of reach of every installed solver); state and block time are symbolic
	periods := []int64{1, 999_999_999, 1_000_000_000, 3_600_000_000_001, 1_209_600_000_000_000, 1<<62 + 5}
	period := periods[vp.Choice("trustingPeriod", len(periods))]
	cs := tmtypes.ClientState{ChainId: "chain-1", TrustingPeriod: time.Duration(period), UnbondingPeriod: time.Duration(period) + time.Hour, MaxClockDrift: 10 * time.Second, LatestHeight: latest,
		ProofSpecs: []*ics23.ProofSpec{ics23.TendermintSpec}, MerklePrefix: commitmenttypes.NewMerklePrefix([]byte("tibc"))}
	tsec := vp.Int64("state.sec")
	vp.Assume(tsec > 0 && tsec < 4_000_000_000)
	tnsec := vp.Uint32("state.nsec")
	vp.Assume(tnsec < 1_000_000_000)
	has := vp.Bool("state.present")
	if has {
		bz, _ := clienttypes.MarshalConsensusState(cdc, &tmtypes.ConsensusState{Timestamp: time.Unix(tsec, int64(tnsec)), Root: commitmenttypes.NewMerkleRoot([]byte{1})})
		store.Set(host.ConsensusStateKey(latest), bz)
	}
	st := cs.Status(ctx, store, cdc)
	// expiry instant = state time + period, computed on (seconds, nanoseconds) without multiplication
	psec, pns := period/1_000_000_000, period%1_000_000_000
	esec, ens := tsec+psec, int64(tnsec)+pns
	if ens >= 1_000_000_000 {
		esec, ens = esec+1, ens-1_000_000_000
	}
	vp.Reach("tendermint status computed")
	if !has {
		vp.Assert(st == exported.Unknown, "C14.1 a client without its newest trusted state reports Unknown")
		return
	}
	older := sec > esec || (sec == esec && int64(nsec) > ens)   // age > period
	younger := sec < esec || (sec == esec && int64(nsec) < ens) // age < period
	if older {
		vp.Assert(st == exported.Expired, "C14.1 tendermint: newest trusted state older than the trusting period => Expired")
	}
	if younger {
		vp.Assert(st == exported.Active, "C14.1 tendermint: newest trusted state inside the trusting period => Active")
	}
}

// statusSec: BSC / ETH clients, age measured in seconds.
func statusSec(bsc bool) {
	ctx, sec, _ := blockTime()
	store := clientStore(ctx)
	cdc := &regCodec{}
	latest := nondetHeight("latest")
	period := vp.Uint64("trustingPeriod.s")
	vp.Assume(period > 0 && period < 1<<40)
	ts := vp.Uint64("state.timestamp.s")
	vp.Assume(ts > 0 && ts < 4_000_000_000)
	has := vp.Bool("state.present")
	var st exported.Status
	if bsc {
		cs := bsctypes.ClientState{Header: bsctypes.Header{Height: latest}, TrustingPeriod: period, Epoch: 200}
		if has {
			bz, _ := clienttypes.MarshalConsensusState(cdc, &bsctypes.ConsensusState{Timestamp: ts, Number: latest, Root: []byte{1}})
			store.Set(host.ConsensusStateKey(latest), bz)
		}
		st = cs.Status(ctx, store, cdc)
	} else {
		cs := ethtypes.ClientState{Header: ethtypes.Header{Height: latest}, TrustingPeriod: period}
		if has {
			bz, _ := clienttypes.MarshalConsensusState(cdc, &ethtypes.ConsensusState{Timestamp: ts, Number: latest, Root: []byte{1}})
			store.Set(host.ConsensusStateKey(latest), bz)
		}
		st = cs.Status(ctx, store, cdc)
	}
	vp.Reach("status computed")
	if !has {
		vp.Assert(st == exported.Unknown, "C14.1 a client without its newest trusted state reports Unknown")
		return
	}
	age := sec - int64(ts) // seconds
	if age > int64(period) {
		vp.Assert(st == exported.Expired, "C14.1 bsc/eth: newest trusted state older than the trusting period (seconds) => Expired")
	}
	if age < int64(period) {
		vp.Assert(st == exported.Active, "C14.1 bsc/eth: newest trusted state inside the trusting period => Active")
	}
}

func H_C14_status_bsc() { statusSec(true) }
func H_C14_status_eth() { statusSec(false) }
