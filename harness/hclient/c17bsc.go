package hclient

import (
	"github.com/cosmos/cosmos-sdk/codec"
	codectypes "github.com/cosmos/cosmos-sdk/codec/types"
	"github.com/ethereum/go-ethereum/crypto"

	clienttypes "github.com/bianjieai/tibc-go/modules/tibc/core/02-client/types"
	host "github.com/bianjieai/tibc-go/modules/tibc/core/24-host"
	"github.com/bianjieai/tibc-go/modules/tibc/core/exported"
	bsctypes "github.com/bianjieai/tibc-go/modules/tibc/light-clients/08-bsc/types"
	"github.com/bianjieai/tibc-go/zzverif/oracle"
	"github.com/bianjieai/tibc-go/zzverif/vp"
)

func bscCodec() codec.BinaryCodec {
	reg := codectypes.NewInterfaceRegistry()
	clienttypes.RegisterInterfaces(reg)
	bsctypes.RegisterInterfaces(reg)
	return codec.NewProtoCodec(reg)
}

// emptyUncleHash = keccak256(rlp([])) as in go-ethereum
var emptyUncleHash = []byte{0x1d, 0xcc, 0x4d, 0xe8, 0xde, 0xc7, 0x5d, 0x7a, 0xab, 0x85, 0xb5, 0x67, 0xb6, 0xcc, 0xd4, 0x1a, 0xd3, 0x12, 0x45, 0x1b, 0x94, 0x8a, 0x74, 0x13, 0xf0, 0xa1, 0x42, 0xfd, 0x40, 0xd4, 0x93, 0x47}

// addrOf: the address of a 65-byte public key, computed as the client does.
func addrOf(pub []byte) []byte { return crypto.Keccak256(pub[1:])[12:] }

func pubkey(tag string) []byte {
	// 65 bytes: 0x04 || 64 bytes, of which one is symbolic (keys differ in that byte)
	p := make([]byte, 65)
	p[0] = 4
	p[1] = vp.Byte(tag)
	return p
}

const bscEpoch = 4

// H_C17_bsc_header: one header against an arbitrary client state (1..3 validators, 0..2 recent
// signers, symbolic latest height) -- accepted iff it is a correctly sealed direct child.
func H_C17_bsc_header() { bscHeader(false) }

// H_C17_bsc_window: the recent-signer window in isolation: 2 (thorough: 2..3) validators, latest height 21 or 24, the last two blocks
// sealed by arbitrary members (possibly the same one, as after a change of the set's size), an
// otherwise faultless header. Run with every iteration order of the recents map.
func H_C17_bsc_window() { bscHeader(true) }

func bscHeader(windowOnly bool) {
	ctx := vp.Ctx()
	store := clientStore(ctx)
	cdc := bscCodec()

	// validator set of N distinct members
	n := 1 + vp.Choice("validators", vp.Bound(2, 3))
	if windowOnly {
		n = 2 + vp.Choice("validators.window", vp.Bound(1, 2))
	}
	var pubs [][]byte
	var vals [][]byte
	for i := 0; i < n; i++ {
		p := pubkey("validator.key")
		for _, q := range pubs {
			vp.Assume(p[1] != q[1])
			vp.Assume(!vp.BytesEq(addrOf(p), addrOf(q))) // distinct keys have distinct addresses (20-byte truncation of the hash)
		}
		pubs = append(pubs, p)
		vals = append(vals, addrOf(p))
	}
	var latestH uint64
	if windowOnly {
		latestH = []uint64{21, 24}[vp.Choice("latest.height.window", 2)] // header 22: no hand-over; header 25: the announced set takes over
	} else {
		latestH = vp.Uint64("latest.height")
		vp.Assume(latestH >= 11 && latestH <= 97) // bound: two-digit heights (store keys spell heights in decimal)
	}
	parentGas := uint64(30_000_000)
	if !windowOnly {
		parentGas = vp.Uint64("parent.gasLimit")
	}
	parent := bsctypes.Header{Height: clienttypes.NewHeight(0, latestH), GasLimit: parentGas, UncleHash: emptyUncleHash,
		Extra: make([]byte, 32+65), Difficulty: 2, Root: []byte{9}}
	vp.Assume(parent.GasLimit < 1<<62)
	cs := &bsctypes.ClientState{Header: parent, ChainId: 56, Epoch: bscEpoch, BlockInteval: 3, Validators: vals}
	bz, _ := clienttypes.MarshalConsensusState(cdc, &bsctypes.ConsensusState{Timestamp: 1, Number: parent.Height, Root: parent.Root})
	store.Set(host.ConsensusStateKey(parent.Height), bz)

	// the header under test: a correctly sealed direct child with exactly one deviation (or none)
	const (
		fNone = iota
		fNumber
		fParentHash
		fGasLimit
		fGasUsed
		fCoinbase
		fOutsider
		fRecoverFails
		fDifficulty
		fExtraOffEpoch
		fExtraRagged
		fMixDigest
		fUncleHash
		nFaults
	)
	fault, nrec := fNone, 2
	if !windowOnly {
		fault = vp.Choice("fault", nFaults)
		nrec = vp.Choice("recents", vp.Bound(2, 3)) // recent signers: who sealed the last blocks
	}
	recentIdx := make([]int, nrec)
	for i := 0; i < nrec; i++ {
		recentIdx[i] = vp.Choice("recent.signer", n)
		bsctypes.SetSigner(store, bsctypes.Signer{Height: clienttypes.NewHeight(0, latestH-uint64(i)), Validator: vals[recentIdx[i]]})
	}
	// pending validator set announced at the last epoch block
	newPub := pubkey("announced.key")
	announced := [][]byte{addrOf(newPub)}
	bsctypes.SetPendingValidators(store, cdc, announced)

	number := latestH + 1
	if fault == fNumber {
		number = vp.Uint64("number")
		vp.Assume(number >= 10 && number <= 99)
	}
	signerIdx := vp.Choice("sealed.by", n)
	sealPub := pubs[signerIdx]
	if fault == fOutsider {
		signerIdx = n
		sealPub = pubkey("outsider.key")
		for _, q := range pubs {
			vp.Assume(sealPub[1] != q[1] && !vp.BytesEq(addrOf(sealPub), addrOf(q)))
		}
	}
	recoverFails := fault == fRecoverFails
	oracle.Ecrecover = func(hash, sig []byte) ([]byte, error) {
		if recoverFails {
			return nil, bsctypes.ErrMissingSignature
		}
		return sealPub, nil
	}
	signer := addrOf(sealPub)
	coinbase := signer
	if fault == fCoinbase {
		coinbase = vp.Bytes("coinbase", 20, 20)
	}
	parentHash := parent.Hash()
	ph := parentHash[:]
	if fault == fParentHash {
		ph = vp.Bytes("parentHash", 32, 32)
	}
	isEpochBlock := number%bscEpoch == 0
	extraVals := 0
	if isEpochBlock {
		extraVals = 20
	}
	if fault == fExtraOffEpoch {
		extraVals = 20
	}
	if fault == fExtraRagged {
		extraVals = 17
	}
	extra := make([]byte, 32+extraVals+65)
	if extraVals >= 20 {
		copy(extra[32:52], addrOf(newPub))
	}
	mix := make([]byte, 32)
	if fault == fMixDigest {
		mix[5] = 1
	}
	uncle := emptyUncleHash
	if fault == fUncleHash {
		uncle = make([]byte, 32)
	}
	gasLimit := parent.GasLimit
	if fault == fGasLimit {
		gasLimit = vp.Uint64("gasLimit")
	}
	gasUsed := uint64(0)
	if fault == fGasUsed {
		gasUsed = vp.Uint64("gasUsed")
	}
	// difficulty: what the rule prescribes for this sealer, or an arbitrary value
	rank0 := 0
	for j := 0; j < n; j++ {
		if signerIdx < n && j != signerIdx && lessBytes(vals[j], vals[signerIdx]) {
			rank0++
		}
	}
	difficulty := uint64(1)
	if signerIdx < n && uint64(rank0) == number%uint64(n) {
		difficulty = 2
	}
	if fault == fDifficulty {
		difficulty = vp.Uint64("difficulty")
	}
	h := &bsctypes.Header{ParentHash: ph, UncleHash: uncle, Coinbase: coinbase, Root: []byte{7, 7}, Difficulty: difficulty,
		Height: clienttypes.NewHeight(0, number), GasLimit: gasLimit, GasUsed: gasUsed, Time: vp.Uint64("time"),
		Extra: extra, MixDigest: mix}

	newCS, newCons, err := cs.CheckHeaderAndUpdateState(ctx, cdc, store, h)

	// ---- independent statement of the rule ----
	child := number == latestH+1 && vp.BytesEq(ph, parentHash[:])
	var gdiff uint64
	if parent.GasLimit > h.GasLimit {
		gdiff = parent.GasLimit - h.GasLimit
	} else {
		gdiff = h.GasLimit - parent.GasLimit
	}
	gasOK := h.GasLimit <= 0x7fffffffffffffff && h.GasUsed <= h.GasLimit && gdiff < parent.GasLimit/256 && h.GasLimit >= 5000
	isValidator := signerIdx < n
	recently := false
	for i := 0; i < nrec; i++ {
		// sealed one of the preceding floor(N/2) blocks (heights number-floor(N/2) .. number-1)
		if recentIdx[i] == signerIdx && uint64(i) < uint64(n/2) {
			recently = true
		}
	}
	// in turn: the validator at position number % N of the ascending address order
	rank := 0
	if isValidator {
		for j := 0; j < n; j++ {
			if j != signerIdx && lessBytes(vals[j], vals[signerIdx]) {
				rank++
			}
		}
	}
	inturn := isValidator && uint64(rank) == number%uint64(n)
	wantDiff := uint64(1)
	if inturn {
		wantDiff = 2
	}
	isEpoch := number%bscEpoch == 0
	extraOK := (isEpoch && extraVals%20 == 0) || (!isEpoch && extraVals == 0)
	basicOK := mix[5] == 0 && vp.BytesEq(uncle, emptyUncleHash)
	sealOK := !recoverFails && vp.BytesEq(coinbase, signer) && isValidator && !recently && h.Difficulty == wantDiff
	allowed := child && gasOK && extraOK && basicOK && sealOK

	if err == nil {
		vp.Reach("bsc header accepted")
		vp.Assert(child, "C17.1 accepted only if it is the direct child of the latest header (number and parent hash)")
		vp.Assert(gasOK, "C17.1 accepted only with gas limit / gas used within bounds")
		vp.Assert(extraOK && basicOK, "C17.1 accepted only if validators are listed exactly on epoch blocks and the fixed fields are as prescribed")
		vp.Assert(!recoverFails && vp.BytesEq(coinbase, signer) && isValidator, "C17.1 accepted only if sealed by a member of the current validator set who is the block's coinbase")
		vp.Assert(!recently, "C17.1 accepted only if the sealer sealed none of the preceding floor(N/2) blocks")
		vp.Assert(h.Difficulty == wantDiff, "C17.1 accepted only with the difficulty matching the sealer's turn")
		ncs, _ := newCS.(*bsctypes.ClientState)
		ncons, _ := newCons.(*bsctypes.ConsensusState)
		vp.Assert(ncs != nil && ncs.Header.Height.RevisionHeight == number && vp.BytesEq(ncs.Header.Root, h.Root) && ncs.Header.Time == h.Time,
			"C17.2 after acceptance the client's latest header is that header")
		vp.Assert(ncons != nil && ncons.Timestamp == h.Time && ncons.Number.RevisionHeight == number && vp.BytesEq(ncons.Root, h.Root),
			"C17.2 after acceptance the consensus state for that height is that header's")
		if ncs != nil {
			if number%bscEpoch == uint64(n/2) {
				vp.Assert(len(ncs.Validators) == 1 && vp.BytesEq(ncs.Validators[0], announced[0]), "C17.3 the announced validator set takes effect exactly floor(N/2) blocks after the epoch block")
			} else {
				vp.Assert(len(ncs.Validators) == n, "C17.3 the validator set changes at no other block")
			}
		}
	} else {
		vp.Reach("bsc header rejected")
	}
	if allowed {
		vp.Assert(err == nil, "C17.4 a correctly sealed direct child is accepted")
	}
	_ = exported.BSC
}

func lessBytes(a, b []byte) bool { return vp.BytesLess(a, b) }
