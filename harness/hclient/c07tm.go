package hclient

import (
	"crypto/sha256"
	"time"

	cmtproto "github.com/cometbft/cometbft/proto/tendermint/types"
	cmttypes "github.com/cometbft/cometbft/types"
	ics23 "github.com/cosmos/ics23/go"

	clienttypes "github.com/bianjieai/tibc-go/modules/tibc/core/02-client/types"
	commitmenttypes "github.com/bianjieai/tibc-go/modules/tibc/core/23-commitment/types"
	host "github.com/bianjieai/tibc-go/modules/tibc/core/24-host"
	tmtypes "github.com/bianjieai/tibc-go/modules/tibc/light-clients/07-tendermint/types"
	"github.com/bianjieai/tibc-go/zzverif/oracle"
	"github.com/bianjieai/tibc-go/zzverif/vp"
)

// The light-client rule itself (voting power over the trust level / two thirds, signatures, time
// window) is cometbft's light.Verify; it is replaced by an oracle (source overlay of the dependency)
// that records its arguments. Validator sets are identified by a tag carried in TotalVotingPower;
// their hash is sha256(tag). What is decided here is everything tibc-go does around the rule.
type verifyArgs struct {
	calls                   int
	trustedChainID          string
	trustedHeight           int64
	trustedTime             time.Time
	trustedNextValsHash     []byte
	trustedValsTag, valsTag int64
	untrustedHeight         int64
	period, drift           int64
	now                     time.Time
	num, den                uint64
}

func valsHash(tag int64) []byte {
	h := sha256.Sum256([]byte{byte(tag)})
	return h[:]
}

func revChain(rev uint64) string { return "ch-" + string([]byte{byte('0' + rev)}) }

// H_C07_tm_update: one header against a client with one stored trusted state.
func H_C07_tm_update() {
	sec := vp.Int64("now.sec")
	vp.Assume(sec > 1000 && sec < 4_000_000_000)
	ctx := vp.WithBlockTime(vp.Ctx(), sec, 0)
	store := clientStore(ctx)
	cdc := &regCodec{}

	clientRev := vp.Uint64("client.revision")
	vp.Assume(clientRev < 3)
	latest := clienttypes.NewHeight(vp.Uint64("latest.rev"), vp.Uint64("latest.height"))
	vp.Assume(latest.RevisionNumber < 3)
	cs := tmtypes.ClientState{ChainId: revChain(clientRev), TrustLevel: tmtypes.Fraction{Numerator: 1, Denominator: 3},
		TrustingPeriod: 1000 * time.Second, UnbondingPeriod: 2000 * time.Second, MaxClockDrift: 7 * time.Second, LatestHeight: latest,
		ProofSpecs: []*ics23.ProofSpec{ics23.TendermintSpec}, MerklePrefix: commitmenttypes.NewMerklePrefix([]byte("tibc"))}

	// the stored trusted state
	th := clienttypes.NewHeight(vp.Uint64("trusted.rev"), vp.Uint64("trusted.height"))
	vp.Assume(th.RevisionNumber < 3 && th.RevisionHeight < 1<<62)
	tsec := vp.Int64("trusted.sec")
	vp.Assume(tsec > 0 && tsec < 4_000_000_000)
	committedTag := int64(1 + vp.Choice("committed.valset", 2))
	trustedCons := &tmtypes.ConsensusState{Timestamp: time.Unix(tsec, 0).UTC(), Root: commitmenttypes.NewMerkleRoot([]byte{1}), NextValidatorsHash: valsHash(committedTag)}
	hasTrusted := vp.Bool("trusted.state.stored")
	if hasTrusted {
		bz, _ := clienttypes.MarshalConsensusState(cdc, trustedCons)
		store.Set(host.ConsensusStateKey(th), bz)
	}

	// the header
	hrev := vp.Uint64("header.revision")
	vp.Assume(hrev < 3)
	hh := vp.Int64("header.height")
	vp.Assume(hh > 0 && hh < 1<<62)
	hsec := vp.Int64("header.sec")
	vp.Assume(hsec > 0 && hsec < 4_000_000_000)
	suppliedTag := int64(1 + vp.Choice("supplied.trusted.valset", 2))
	newValsTag := int64(3)
	appHash := vp.Bytes("header.appHash", 2, 2)
	nextHash := valsHash(int64(4))
	header := &tmtypes.Header{
		SignedHeader: &cmtproto.SignedHeader{Header: &cmtproto.Header{ChainID: revChain(hrev), Height: hh, Time: time.Unix(hsec, 0).UTC(),
			AppHash: appHash, ValidatorsHash: valsHash(newValsTag), NextValidatorsHash: nextHash}, Commit: &cmtproto.Commit{}},
		ValidatorSet:      &cmtproto.ValidatorSet{TotalVotingPower: newValsTag},
		TrustedHeight:     th,
		TrustedValidators: &cmtproto.ValidatorSet{TotalVotingPower: suppliedTag},
	}
	if vp.Bool("header.claims.other.trusted.height") {
		header.TrustedHeight = clienttypes.NewHeight(vp.Uint64("claimed.rev"), vp.Uint64("claimed.height"))
		vp.Assume(header.TrustedHeight.RevisionNumber < 3)
	}

	// oracles
	ruleOK := vp.Bool("light.rule.satisfied")
	args := &verifyArgs{}
	oracle.ValidatorSetFromProto = func(v interface{}) (bool, error) { return true, nil }
	oracle.SignedHeaderFromProto = func(v interface{}) (bool, error) { return true, nil }
	oracle.ValidatorSetHash = valsHash
	oracle.LightVerify = func(trustedHeader, trustedVals, untrustedHeader, untrustedVals interface{}, trustingPeriod int64, now interface{}, maxClockDrift int64, trustLevel interface{}) error {
		args.calls++
		t := trustedHeader.(*cmttypes.SignedHeader)
		args.trustedChainID, args.trustedHeight, args.trustedTime, args.trustedNextValsHash = t.ChainID, t.Height, t.Time, t.NextValidatorsHash
		args.trustedValsTag = trustedVals.(*cmttypes.ValidatorSet).TotalVotingPower()
		args.valsTag = untrustedVals.(*cmttypes.ValidatorSet).TotalVotingPower()
		args.untrustedHeight = untrustedHeader.(*cmttypes.SignedHeader).Height
		args.period, args.drift, args.now = trustingPeriod, maxClockDrift, now.(time.Time)
		if ruleOK {
			return nil
		}
		return tmtypes.ErrInvalidHeader
	}

	newCS, newCons, err := cs.CheckHeaderAndUpdateState(ctx, cdc, store, header)

	claimed := header.TrustedHeight
	trustedFound := hasTrusted && claimed.RevisionNumber == th.RevisionNumber && claimed.RevisionHeight == th.RevisionHeight
	valsMatch := suppliedTag == committedTag
	sameRevision := hrev == claimed.RevisionNumber
	newer := uint64(hh) > claimed.RevisionHeight
	if err == nil {
		vp.Reach("tendermint header accepted")
		vp.Assert(trustedFound, "C07.1 accepted only against a stored trusted state at the claimed trusted height")
		vp.Assert(valsMatch, "C07.1 accepted only if the supplied trusted validators are the ones that state committed to")
		vp.Assert(sameRevision && newer, "C07.1 accepted only if the header is newer than and in the same revision as the trusted state")
		vp.Assert(args.calls >= 1 && ruleOK, "C07.1 accepted only if the light-client rule accepts")
		wantChain := revChain(hrev) // a chain id in revision format follows the header's revision ...
		if clientRev == 0 {
			wantChain = revChain(0) // ... "ch-0" is not in revision format (revisions start at 1) and is used as is
		}
		vp.Assert(args.trustedChainID == wantChain && args.trustedHeight == int64(th.RevisionHeight) && args.trustedTime.Equal(trustedCons.Timestamp) &&
			vp.BytesEq(args.trustedNextValsHash, trustedCons.NextValidatorsHash) && args.trustedValsTag == suppliedTag && args.valsTag == newValsTag && args.untrustedHeight == hh,
			"C07.2 the rule is evaluated on exactly the trusted state (chain id with the header's revision, height, time, next validators) and the submitted header and sets")
		vp.Assert(args.period == int64(cs.TrustingPeriod) && args.drift == int64(cs.MaxClockDrift) && args.now.Unix() == sec,
			"C07.2 the rule is evaluated with the client's trusting period and clock drift and the chain's block time")
		ncs, _ := newCS.(*tmtypes.ClientState)
		ncons, _ := newCons.(*tmtypes.ConsensusState)
		vp.Assert(ncons != nil && ncons.Timestamp.Unix() == hsec && vp.BytesEq(ncons.Root.Hash, appHash) && vp.BytesEq(ncons.NextValidatorsHash, nextHash),
			"C07.3 the new consensus state is the header's time, app hash and next-validators hash")
		hHeight := clienttypes.NewHeight(hrev, uint64(hh))
		want := latest
		if hHeight.GT(latest) {
			want = hHeight
		}
		vp.Assert(ncs != nil && ncs.LatestHeight.RevisionNumber == want.RevisionNumber && ncs.LatestHeight.RevisionHeight == want.RevisionHeight,
			"C07.3 the latest height becomes max(latest, header height) and never decreases")
		pt, ok := tmtypes.GetProcessedTime(store, hHeight)
		vp.Assert(ok && pt == uint64(sec)*1_000_000_000, "C07.3 the processed time of the new state is the block time")
	} else {
		vp.Reach("tendermint header rejected")
	}
	if trustedFound && valsMatch && sameRevision && newer && ruleOK {
		vp.Assert(err == nil, "C07.4 a header the rule allows, newer and in the revision of a stored trusted state, is accepted")
	}
}
