package hclient

import "strconv"

// Reference store paths of the protocol (what the counterparty chain / contract stores under),
// independent of the repo's 24-host helpers.
func refCommitmentPath(src, dst string, seq uint64) string {
	return "commitments/" + src + "/" + dst + "/sequences/" + strconv.FormatUint(seq, 10)
}
func refAckPath(src, dst string, seq uint64) string {
	return "acks/" + src + "/" + dst + "/sequences/" + strconv.FormatUint(seq, 10)
}
func refCleanPath(src, dst string) string { return "clean/" + src + "/" + dst }
