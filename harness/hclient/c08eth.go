package hclient

import (
	"encoding/hex"
	"encoding/json"
	"math/big"

	"github.com/ethereum/go-ethereum/common"
	"github.com/ethereum/go-ethereum/crypto"
	"github.com/ethereum/go-ethereum/rlp"

	clienttypes "github.com/bianjieai/tibc-go/modules/tibc/core/02-client/types"
	packettypes "github.com/bianjieai/tibc-go/modules/tibc/core/04-packet/types"
	host "github.com/bianjieai/tibc-go/modules/tibc/core/24-host"
	bsctypes "github.com/bianjieai/tibc-go/modules/tibc/light-clients/08-bsc/types"
	ethtypes "github.com/bianjieai/tibc-go/modules/tibc/light-clients/09-eth/types"
	"github.com/bianjieai/tibc-go/zzverif/oracle"
	"github.com/bianjieai/tibc-go/zzverif/vp"
)

// The Merkle-Patricia proof check of go-ethereum (trie.VerifyProof) is replaced, through a source
// overlay of the dependency, by this model of ONE-ENTRY tries: a trie is (root, key, value, node);
// a proof is the list of its nodes. VerifyProof(root, key, db) returns the value if the trie with
// that root has its node in db and holds the key, (nil,nil) if it holds another key (proof of
// absence), and an error if no known trie has that root / the node is missing.
type mpt struct {
	root [32]byte
	key  []byte
	val  []byte
	node []byte
}

var tries []mpt

type hasher interface {
	Has(key []byte) (bool, error)
}

func verifyProofOracle(root [32]byte, key []byte, db interface{}) ([]byte, error, bool) {
	h, ok := db.(hasher)
	if !ok {
		return nil, packettypes.ErrInvalidPacket, true
	}
	for _, t := range tries {
		present, _ := h.Has(crypto.Keccak256(t.node))
		if root == t.root && present {
			if vp.BytesEq(key, t.key) {
				return t.val, nil, true
			}
			return nil, nil, true
		}
	}
	return nil, packettypes.ErrInvalidPacket, true
}

func hex0x(b []byte) string { return "0x" + hex.EncodeToString(b) }

func bytes32(n string) [32]byte {
	var a [32]byte
	copy(a[:], vp.Bytes(n, 32, 32))
	return a
}

// H_C08_eth_* / H_C08_bsc_*: account + storage proof verification of the ETH and BSC clients.
func H_C08_eth_commitment() { ethVerify(false, 1) }
func H_C08_eth_ack()        { ethVerify(false, 2) }
func H_C08_eth_clean()      { ethVerify(false, 3) }
func H_C08_bsc_commitment() { ethVerify(true, 1) }
func H_C08_bsc_ack()        { ethVerify(true, 2) }
func H_C08_bsc_clean()      { ethVerify(true, 3) }

var dbg bool

func ethVerify(bsc bool, kind int) {
	tries = nil
	oracle.TrieVerifyProof = verifyProofOracle
	ctx := vp.Ctx()
	store := clientStore(ctx)
	cdc := &regCodec{}
	latestH := vp.Uint64("latest.height")
	h := clienttypes.NewHeight(0, vp.Uint64("h.height"))
	latest := clienttypes.NewHeight(0, latestH)
	contract := vp.Bytes("contract", 20, 20)
	src, dst := vp.String("src", 2, 2, "ab"), vp.String("dst", 2, 2, "ab")
	seq := vp.Uint64("seq")
	vp.Assume(seq < 100)
	value32 := vp.Bytes("value", 32, 32) // commitment / ack hash
	vp.Assume(value32[0] != 0)           // stored without leading zeros: keep the full width (bound)
	var pathKey []byte
	stored := value32 // what the contract's storage slot holds (big-endian, minimal)
	switch kind {
	case 1:
		pathKey = []byte(refCommitmentPath(src, dst, seq))
	case 2:
		pathKey = []byte(refAckPath(src, dst, seq))
	default:
		pathKey = []byte(refCleanPath(src, dst))
		vp.Assume(seq >= 1)
		stored = new(big.Int).SetUint64(seq).Bytes()
	}
	slot := crypto.Keccak256(pathKey, common.LeftPadBytes(big.NewInt(104).Bytes(), 32)) // protocol-defined storage slot

	const (
		fNone = iota
		fOtherSlot
		fOtherValue
		fOtherStorageRoot
		fOtherStateRoot
		fOtherContract
		fNoConsensusState
		fTwoStorageProofs
		fUndecodable
		nFaults
	)
	fault := vp.Choice("fault", nFaults)
	if dbg {
		vp.Assume(fault == fNone && latestH == 100 && h.RevisionHeight == 10)
	}

	// the storage trie of the contract: one slot
	provenSlot := slot
	if fault == fOtherSlot {
		provenSlot = vp.Bytes("proof.slot", 32, 32)
		vp.Assume(!vp.BytesEq(provenSlot, slot)) // another slot: nobody can choose a slot equal to a Keccak image
	}
	provenValue := stored
	if fault == fOtherValue {
		provenValue = vp.Bytes("proof.value", 32, 32)
		vp.Assume(provenValue[0] != 0)
	}
	storageRoot := bytes32("storage.root")
	valRlp, _ := rlp.EncodeToBytes(provenValue)
	storageNode := vp.Bytes("storage.node", 4, 4)
	tries = append(tries, mpt{root: storageRoot, key: crypto.Keccak256(provenSlot), val: valRlp, node: storageNode})
	claimedStorageRoot := storageRoot
	if fault == fOtherStorageRoot {
		claimedStorageRoot = bytes32("claimed.storage.root")
	}
	// the state trie: one account
	nonce, balance, codeHash := big.NewInt(1), big.NewInt(0), bytes32("code.hash")
	var acctRlp []byte
	if bsc {
		acctRlp, _ = rlp.EncodeToBytes(&bsctypes.ProofAccount{Nonce: nonce, Balance: balance, Storage: storageRoot, Codehash: codeHash})
	} else {
		acctRlp, _ = rlp.EncodeToBytes(&ethtypes.ProofAccount{Nonce: nonce, Balance: balance, Storage: storageRoot, Codehash: codeHash})
	}
	stateRoot := bytes32("state.root")
	provenContract := contract
	if fault == fOtherContract {
		provenContract = vp.Bytes("proof.contract", 20, 20)
	}
	accountNode := vp.Bytes("account.node", 4, 4)
	tries = append(tries, mpt{root: stateRoot, key: crypto.Keccak256(provenContract), val: acctRlp, node: accountNode})
	recordedRoot := stateRoot
	if fault == fOtherStateRoot {
		recordedRoot = bytes32("recorded.root")
	}

	sp := []interface{}{map[string]interface{}{"key": hex0x(provenSlot), "value": "0x0", "proof": []string{hex0x(storageNode)}}}
	_ = sp
	var proofBz []byte
	addrHex := hex0x(contract)
	if bsc {
		p := bsctypes.Proof{Address: addrHex, Balance: "0x0", CodeHash: hex0x(codeHash[:]), Nonce: "0x1", StorageHash: hex0x(claimedStorageRoot[:]),
			AccountProof: []string{hex0x(accountNode)}, StorageProof: []*bsctypes.StorageResult{{Key: hex0x(provenSlot), Value: "0x0", Proof: []string{hex0x(storageNode)}}}}
		if fault == fTwoStorageProofs {
			p.StorageProof = append(p.StorageProof, p.StorageProof[0])
		}
		proofBz, _ = json.Marshal(p)
	} else {
		p := ethtypes.Proof{Address: addrHex, Balance: "0x0", CodeHash: hex0x(codeHash[:]), Nonce: "0x1", StorageHash: hex0x(claimedStorageRoot[:]),
			AccountProof: []string{hex0x(accountNode)}, StorageProof: []*ethtypes.StorageResult{{Key: hex0x(provenSlot), Value: "0x0", Proof: []string{hex0x(storageNode)}}}}
		if fault == fTwoStorageProofs {
			p.StorageProof = append(p.StorageProof, p.StorageProof[0])
		}
		proofBz, _ = json.Marshal(p)
	}
	if fault == fUndecodable {
		proofBz = []byte("{")
	}
	// distinct tries have distinct roots and nodes (a root is the hash of its node)
	vp.Assume(stateRoot != storageRoot && !vp.BytesEq(accountNode, storageNode))
	vp.Assume(claimedStorageRoot != stateRoot && recordedRoot != storageRoot)
	hasCons := fault != fNoConsensusState
	blockDelay := vp.Uint64("delay.blocks")
	vp.Assume(blockDelay < 1<<40)

	var err error
	if bsc {
		nvals := 1 + vp.Choice("validators", 3)
		cs := bsctypes.ClientState{Header: bsctypes.Header{Height: latest}, ContractAddress: contract, Epoch: 200, Validators: make([][]byte, nvals)}
		blockDelay = cs.GetDelayBlock()
		if hasCons {
			bz, _ := clienttypes.MarshalConsensusState(cdc, &bsctypes.ConsensusState{Timestamp: 1, Number: h, Root: recordedRoot[:]})
			store.Set(host.ConsensusStateKey(h), bz)
		}
		switch kind {
		case 1:
			err = cs.VerifyPacketCommitment(ctx, store, cdc, h, proofBz, src, dst, seq, value32)
		case 2:
			err = cs.VerifyPacketAcknowledgement(ctx, store, cdc, h, proofBz, src, dst, seq, value32)
		default:
			err = cs.VerifyPacketCleanCommitment(ctx, store, cdc, h, proofBz, src, dst, seq)
		}
	} else {
		cs := ethtypes.ClientState{Header: ethtypes.Header{Height: latest}, ContractAddress: contract, BlockDelay: blockDelay}
		if hasCons {
			bz, _ := clienttypes.MarshalConsensusState(cdc, &ethtypes.ConsensusState{Timestamp: 1, Number: h, Root: recordedRoot[:]})
			store.Set(host.ConsensusStateKey(h), bz)
		}
		switch kind {
		case 1:
			err = cs.VerifyPacketCommitment(ctx, store, cdc, h, proofBz, src, dst, seq, value32)
		case 2:
			err = cs.VerifyPacketAcknowledgement(ctx, store, cdc, h, proofBz, src, dst, seq, value32)
		default:
			err = cs.VerifyPacketCleanCommitment(ctx, store, cdc, h, proofBz, src, dst, seq)
		}
	}

	heightOK := h.RevisionHeight <= latestH
	delayOK := heightOK && latestH-h.RevisionHeight >= blockDelay
	genuine := fault != fNoConsensusState && fault != fTwoStorageProofs && fault != fUndecodable &&
		vp.BytesEq(provenSlot, slot) && vp.BytesEq(provenValue, stored) && claimedStorageRoot == storageRoot &&
		recordedRoot == stateRoot && vp.BytesEq(provenContract, contract)
	if err == nil {
		vp.Reach("verification succeeded")
		vp.Assert(heightOK, "C08.3 succeeds only if the proof height is not above the client's latest height")
		vp.Assert(delayOK, "C08.3 succeeds only after the confirmation delay in blocks has elapsed")
		vp.Assert(hasCons, "C08.3 succeeds only against the state root recorded at the proof height")
		vp.Assert(genuine, "C08.3 succeeds only if the account and storage proofs show the claimed value at the protocol-defined slot of the contract under the recorded root")
	} else {
		vp.Reach("verification failed")
	}
	if fault == fNone && delayOK {
		vp.Assert(err == nil, "C08.4 a genuine account + storage proof of the stored value (commitment, acknowledgement or clean point) at a known, old-enough height verifies (completeness)")
	}
}
