// Package happs: harnesses for the NFT and MT transfer applications (C04, C05, C06, C09, C19).
// The token modules (irismod nft / mt), the packet keeper and the client keeper are small models
// written here; the transfer keepers, class-path code and module callbacks are the real code.
package happs

import (
	sdk "github.com/cosmos/cosmos-sdk/types"
	nftexported "mods.irisnet.org/modules/nft/exported"
	nfttypes "mods.irisnet.org/modules/nft/types"

	packettypes "github.com/bianjieai/tibc-go/modules/tibc/core/04-packet/types"
	"github.com/bianjieai/tibc-go/modules/tibc/core/exported"
	"github.com/bianjieai/tibc-go/zzverif/vp"
)

const (
	alice  = "cosmos1qyqszqgpqyqszqgpqyqszqgpqyqszqgpjnp7du"
	bob    = "cosmos1qgpqyqszqgpqyqszqgpqyqszqgpqyqszrh8mx2"
	escrow = "cosmos1qvpsxqcrqvpsxqcrqvpsxqcrqvpsxqcrz8x6vt"
)

func addr(s string) sdk.AccAddress {
	a, err := sdk.AccAddressFromBech32(s)
	if err != nil {
		panic(err)
	}
	return a
}

// ---- NFT module model (irismod semantics that matter: one owner per (class,id); mint fails if
// present or class unknown; transfer / burn fail unless the given account is the owner) ----

type token struct {
	class, id, uri string
	owner          string // bech32, "" = burned / absent
}

type nftModel struct {
	denoms []string
	tokens []*token
	calls  int
}

type modelNFT struct{ t *token }

func (n modelNFT) GetID() string            { return n.t.id }
func (n modelNFT) GetName() string          { return "" }
func (n modelNFT) GetOwner() sdk.AccAddress { return addr(n.t.owner) }
func (n modelNFT) GetURI() string           { return n.t.uri }
func (n modelNFT) GetURIHash() string       { return "" }
func (n modelNFT) GetData() string          { return "" }

var _ nftexported.NFT = modelNFT{}

func (m *nftModel) find(class, id string) *token {
	for _, t := range m.tokens {
		if t.owner != "" && t.class == class && t.id == id {
			return t
		}
	}
	return nil
}

func (m *nftModel) hasDenom(class string) bool {
	for _, d := range m.denoms {
		if d == class {
			return true
		}
	}
	return false
}

func (m *nftModel) ownerOf(class, id string) string {
	if t := m.find(class, id); t != nil {
		return t.owner
	}
	return ""
}

func (m *nftModel) MintNFT(ctx sdk.Context, denomID, tokenID, tokenNm, tokenURI, tokenData string, owner sdk.AccAddress) error {
	m.calls++
	if !m.hasDenom(denomID) || m.find(denomID, tokenID) != nil {
		return nfttypes.ErrInvalidNFT
	}
	m.tokens = append(m.tokens, &token{class: denomID, id: tokenID, uri: tokenURI, owner: owner.String()})
	return nil
}

func (m *nftModel) BurnNFT(ctx sdk.Context, denomID, tokenID string, owner sdk.AccAddress) error {
	m.calls++
	t := m.find(denomID, tokenID)
	if t == nil || t.owner != owner.String() {
		return nfttypes.ErrUnauthorized
	}
	t.owner = ""
	return nil
}

func (m *nftModel) GetNFT(ctx sdk.Context, denomID, tokenID string) (nftexported.NFT, error) {
	t := m.find(denomID, tokenID)
	if t == nil {
		return nil, nfttypes.ErrInvalidNFT
	}
	return modelNFT{t}, nil
}

func (m *nftModel) TransferOwner(ctx sdk.Context, denomID, tokenID, tokenNm, tokenURI, tokenData string, srcOwner, dstOwner sdk.AccAddress) error {
	m.calls++
	t := m.find(denomID, tokenID)
	if t == nil || t.owner != srcOwner.String() {
		return nfttypes.ErrUnauthorized
	}
	t.owner = dstOwner.String()
	return nil
}

func (m *nftModel) GetDenom(ctx sdk.Context, id string) (nfttypes.Denom, bool) {
	if m.hasDenom(id) {
		return nfttypes.Denom{Id: id}, true
	}
	return nfttypes.Denom{}, false
}

func (m *nftModel) IssueDenom(ctx sdk.Context, id, name, schema, symbol string, creator sdk.AccAddress, mintRestricted, updateRestricted bool) error {
	m.calls++
	if m.hasDenom(id) {
		return nfttypes.ErrInvalidDenom
	}
	m.denoms = append(m.denoms, id)
	return nil
}

// live returns how many live tokens the model holds.
func (m *nftModel) live() int {
	n := 0
	for _, t := range m.tokens {
		if t.owner != "" {
			n++
		}
	}
	return n
}

// ---- environment stubs ---------------------------------------------------------------

type stubAccounts struct{}

func (stubAccounts) GetModuleAddress(name string) sdk.AccAddress { return addr(escrow) }

type stubPackets struct {
	next    uint64
	sent    []packettypes.Packet
	failing bool
}

func (p *stubPackets) GetNextSequenceSend(ctx sdk.Context, src, dst string) uint64 { return p.next }
func (p *stubPackets) SendPacket(ctx sdk.Context, packet exported.PacketI) error {
	if p.failing {
		return packettypes.ErrInvalidPacket
	}
	p.sent = append(p.sent, packet.(packettypes.Packet))
	p.next++
	return nil
}

type stubClients struct{ self string }

func (c stubClients) GetChainName(ctx sdk.Context) string { return c.self }

func cname(n string) string { return vp.String(n, 2, 2, "AB") }
