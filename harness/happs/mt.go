package happs

import (
	"strings"

	"github.com/cosmos/cosmos-sdk/codec"
	codectypes "github.com/cosmos/cosmos-sdk/codec/types"
	sdk "github.com/cosmos/cosmos-sdk/types"
	mtexported "mods.irisnet.org/modules/mt/exported"
	mttypes "mods.irisnet.org/modules/mt/types"

	mttransfer "github.com/bianjieai/tibc-go/modules/tibc/apps/mt_transfer"
	mtkeeper "github.com/bianjieai/tibc-go/modules/tibc/apps/mt_transfer/keeper"
	"github.com/bianjieai/tibc-go/modules/tibc/apps/mt_transfer/types"
	packettypes "github.com/bianjieai/tibc-go/modules/tibc/core/04-packet/types"
	"github.com/bianjieai/tibc-go/zzverif/vp"
)

// ---- MT module model: 64-bit balances and supply per (class,id); the irismod refusals that
// matter: mint refuses overflow, transfer / burn refuse amounts above the balance ----

type mtBal struct {
	class, id, owner string
	amount           uint64
}

type mtModel struct {
	denoms   []string
	bals     []*mtBal
	supplies []*mtBal // owner unused
	mutCalls int
	lastAmt  uint64
}

func (m *mtModel) bal(class, id, owner string) *mtBal {
	for _, b := range m.bals {
		if b.class == class && b.id == id && b.owner == owner {
			return b
		}
	}
	b := &mtBal{class: class, id: id, owner: owner}
	m.bals = append(m.bals, b)
	return b
}

func (m *mtModel) supply(class, id string) *mtBal {
	for _, b := range m.supplies {
		if b.class == class && b.id == id {
			return b
		}
	}
	return nil
}

func (m *mtModel) balanceOf(class, id, owner string) uint64 { return m.bal(class, id, owner).amount }
func (m *mtModel) supplyOf(class, id string) uint64 {
	if s := m.supply(class, id); s != nil {
		return s.amount
	}
	return 0
}

func (m *mtModel) hasDenom(class string) bool {
	for _, d := range m.denoms {
		if d == class {
			return true
		}
	}
	return false
}

func (m *mtModel) IssueDenom(ctx sdk.Context, id, name string, sender sdk.AccAddress, data []byte) mttypes.Denom {
	m.mutCalls++
	if !m.hasDenom(id) {
		m.denoms = append(m.denoms, id)
	}
	return mttypes.Denom{Id: id}
}

func (m *mtModel) IssueMT(ctx sdk.Context, denomID, mtID string, amount uint64, data []byte, recipient sdk.AccAddress) (mttypes.MT, error) {
	m.mutCalls++
	m.lastAmt = amount
	if !m.hasDenom(denomID) || m.supply(denomID, mtID) != nil {
		return mttypes.MT{}, errModel
	}
	m.supplies = append(m.supplies, &mtBal{class: denomID, id: mtID, amount: amount})
	m.bal(denomID, mtID, recipient.String()).amount += amount
	return mttypes.MT{Id: mtID, Supply: amount}, nil
}

func (m *mtModel) MintMT(ctx sdk.Context, denomID, mtID string, amount uint64, recipient sdk.AccAddress) error {
	m.mutCalls++
	m.lastAmt = amount
	s := m.supply(denomID, mtID)
	if s == nil || ^uint64(0)-s.amount < amount {
		return errModel
	}
	s.amount += amount
	m.bal(denomID, mtID, recipient.String()).amount += amount
	return nil
}

func (m *mtModel) TransferOwner(ctx sdk.Context, denomID, mtID string, amount uint64, srcOwner, dstOwner sdk.AccAddress) error {
	m.mutCalls++
	m.lastAmt = amount
	b := m.bal(denomID, mtID, srcOwner.String())
	if b.amount < amount {
		return errModel
	}
	b.amount -= amount
	m.bal(denomID, mtID, dstOwner.String()).amount += amount
	return nil
}

func (m *mtModel) BurnMT(ctx sdk.Context, denomID, mtID string, amount uint64, owner sdk.AccAddress) error {
	m.mutCalls++
	m.lastAmt = amount
	b := m.bal(denomID, mtID, owner.String())
	s := m.supply(denomID, mtID)
	if s == nil || b.amount < amount {
		return errModel
	}
	b.amount -= amount
	s.amount -= amount
	return nil
}

func (m *mtModel) HasMT(ctx sdk.Context, denomID, mtID string) bool {
	return m.supply(denomID, mtID) != nil
}

type modelMT struct{ s *mtBal }

func (t modelMT) GetID() string     { return t.s.id }
func (t modelMT) GetSupply() uint64 { return t.s.amount }
func (t modelMT) GetData() []byte   { return []byte("d") }

var _ mtexported.MT = modelMT{}

func (m *mtModel) GetMT(ctx sdk.Context, denomID, mtID string) (mtexported.MT, error) {
	s := m.supply(denomID, mtID)
	if s == nil {
		return nil, errModel
	}
	return modelMT{s}, nil
}

func (m *mtModel) GetDenom(ctx sdk.Context, id string) (mttypes.Denom, bool) {
	if m.hasDenom(id) {
		return mttypes.Denom{Id: id}, true
	}
	return mttypes.Denom{}, false
}

type mtChain struct {
	self string
	ctx  sdk.Context
	k    mtkeeper.Keeper
	am   mttransfer.AppModule
	mt   *mtModel
	pk   *stubPackets
}

func newMtChain(self string) *mtChain {
	c := &mtChain{self: self, ctx: vp.Ctx(), mt: &mtModel{}, pk: &stubPackets{next: 1}}
	cdc := codec.NewProtoCodec(codectypes.NewInterfaceRegistry())
	c.k = mtkeeper.NewKeeper(cdc, vp.StoreKey("mt"), stubAccounts{}, c.mt, c.pk, stubClients{self})
	c.am = mttransfer.NewAppModule(c.k)
	return c
}

// give: owner holds `amount` units of (class,id); the supply is at least that.
func (c *mtChain) give(class, id, owner string, amount uint64) {
	if !c.mt.hasDenom(class) {
		c.mt.denoms = append(c.mt.denoms, class)
	}
	s := c.mt.supply(class, id)
	if s == nil {
		s = &mtBal{class: class, id: id}
		c.mt.supplies = append(c.mt.supplies, s)
	}
	s.amount += amount
	c.mt.bal(class, id, owner).amount += amount
}

func (c *mtChain) voucherFor(path string) string {
	// reference reading of the path, independent of types.ParseClassTrace (see refTrace in nft.go)
	i := strings.LastIndex(path, "/")
	c.k.SetClassTrace(c.ctx, types.ClassTrace{Path: path[:i], BaseClass: path[i+1:]})
	return refVoucher(path)
}

const hexClass = "c0ffee" // native MT class ids are module-generated hex strings

func decodeMT(p packettypes.Packet) (types.MultiTokenPacketData, bool) {
	var d types.MultiTokenPacketData
	err := d.Unmarshal(p.Data)
	return d, err == nil
}

// H_C05_send: a partial transfer of `amount` units out of a holding of `held`, full 64-bit amounts.
func H_C05_send() {
	self := cname("self")
	c := newMtChain(self)
	id := "m1"
	origin := cname("origin")
	vp.Assume(origin != self)
	voucher := vp.Bool("asset.isVoucher")
	class, fullPath, cameFrom := hexClass, hexClass, ""
	if voucher {
		fullPath = "mt/" + origin + "/" + self + "/" + hexClass
		class, cameFrom = c.voucherFor(fullPath), origin
	}
	held := vp.Uint64("held")
	others := vp.Uint64("held.by.others")
	vp.Assume(^uint64(0)-held >= others) // supply = held + others fits (model invariant)
	c.give(class, id, alice, held)
	c.give(class, id, bob, others)
	escrow0 := vp.Uint64("escrow.before")
	vp.Assume(^uint64(0)-held-others >= escrow0)
	c.give(class, id, escrow, escrow0)
	amount := vp.Uint64("amount")
	dest := cname("dest")
	relay := ""
	if vp.Bool("relay.present") {
		relay = cname("relay") // class paths never record relay chains: the direction depends on the destination only
	}
	c.pk.failing = vp.Bool("packet.layer.refuses")
	supply0 := c.mt.supplyOf(class, id)

	err := c.k.SendMtTransfer(c.ctx, class, id, addr(alice), bob, dest, relay, "", amount)

	wantAway := !voucher || dest != cameFrom
	if err == nil {
		vp.Reach("mt send accepted")
		vp.Assert(amount <= held, "C05.1 nobody can send more units than they hold")
		vp.Assert(len(c.pk.sent) == 1, "C09.5 a successful send hands exactly one packet to the packet layer")
		if len(c.pk.sent) == 1 {
			d, ok := decodeMT(c.pk.sent[0])
			vp.Assert(ok && d.Amount == amount && d.Class == fullPath && d.Id == id && d.Sender == alice && d.Receiver == bob, "C05.1 the packet carries exactly the amount that left (no narrowing, no arithmetic) and names the asset and parties")
			vp.Assert(d.AwayFromOrigin == wantAway, "C04.2 direction: away from origin unless the destination is the chain the voucher came from")
		}
		vp.Assert(c.mt.balanceOf(class, id, alice) == held-amount, "C05.1 the sender's holding decreases by exactly the amount")
		if wantAway {
			vp.Assert(c.mt.balanceOf(class, id, escrow) == escrow0+amount && c.mt.supplyOf(class, id) == supply0, "C05.1 moving away: escrow grows by exactly the amount, supply unchanged")
		} else {
			vp.Assert(c.mt.supplyOf(class, id) == supply0-amount && c.mt.balanceOf(class, id, escrow) == escrow0, "C05.1 moving back: voucher supply shrinks by exactly the amount")
		}
		vp.Assert(c.mt.balanceOf(class, id, bob) == others, "C05.1 other holders are untouched")
	} else {
		vp.Reach("mt send refused")
		vp.Assert(len(c.pk.sent) == 0, "C09.5 a refused send hands no packet to the packet layer")
	}
	if c.pk.failing {
		vp.Assert(err != nil, "C09.5/C19.1 a failure of the packet layer fails the transfer (never swallowed after the lock)")
	}
	if amount <= held && dest != self && !c.pk.failing && amount > 0 {
		vp.Assert(err == nil, "C05.1 a holder's partial transfer is accepted")
	}
}

// H_C05_recv: delivery on the destination through the real module callback.
func H_C05_recv() {
	self := cname("self")
	src := cname("src")
	vp.Assume(src != self)
	c := newMtChain(self)
	id := "m1"
	away := vp.Bool("data.away")
	amount := vp.Uint64("amount")
	class := hexClass
	backClass := ""
	if !away || vp.Bool("class.hasPath") {
		class = "mt/" + self + "/" + src + "/" + hexClass
		backClass = hexClass
	}
	escrow0 := vp.Uint64("escrow.before")
	if backClass != "" {
		c.give(backClass, id, escrow, escrow0)
	}
	// an existing voucher supply of the class this packet would mint
	newPath := "mt/" + src + "/" + self + "/" + hexClass
	if class != hexClass {
		newPath = "mt/" + self + "/" + src + "/" + self + "/" + hexClass
	}
	v := refVoucher(newPath)
	vSupply0 := vp.Uint64("voucher.supply.before")
	if vp.Bool("voucher.exists") {
		c.give(v, id, alice, vSupply0)
	} else {
		vSupply0 = 0
	}
	receiver := bob
	if vp.Bool("receiver.invalid") {
		receiver = "not-an-address"
	}
	data := types.NewMultiTokenPacketData(class, id, alice, receiver, away, "", amount, []byte("d")).GetBytes()
	packet := packettypes.Packet{Sequence: 1, Port: "MT", SourceChain: src, DestinationChain: self, Data: data}
	bob0 := c.mt.balanceOf(v, id, bob)

	_, ack, err := c.am.OnRecvPacket(c.ctx, packet)

	vp.Assert(err == nil && len(ack) > 0, "C03.4 the application always answers with a non-empty acknowledgement")
	if err != nil {
		return
	}
	if ackIsError(ack) {
		vp.Reach("mt receive answered with an error acknowledgement")
		vp.Assert(c.mt.supplyOf(v, id) == vSupply0 && c.mt.balanceOf(v, id, bob) == bob0 && (backClass == "" || c.mt.balanceOf(backClass, id, escrow) == escrow0),
			"C19.3 an error acknowledgement leaves balances and supplies unchanged")
	} else {
		vp.Reach("mt receive succeeded")
		vp.Assert(amount > 0, "C05.1 a zero amount is refused")
		if away {
			vp.Assert(c.mt.supplyOf(v, id) == vSupply0+amount && vSupply0+amount >= vSupply0, "C05.1 moving away: voucher supply grows by exactly the amount, without wrap-around")
			vp.Assert(c.mt.balanceOf(v, id, bob) == bob0+amount, "C05.1 moving away: the receiver gets exactly the amount")
		} else {
			vp.Assert(amount <= escrow0 && c.mt.balanceOf(backClass, id, escrow) == escrow0-amount, "C05.1 moving back: escrow shrinks by exactly the amount and never below zero")
			vp.Assert(c.mt.balanceOf(backClass, id, bob) == amount, "C05.1 moving back: the receiver gets exactly the amount")
		}
	}
}

// H_C05_refund: send then acknowledge; error => the sender has back exactly what left, the escrow
// / supply are as before the send. Covers native assets, vouchers sent back and vouchers sent on.
func H_C05_refund() {
	self := cname("self")
	c := newMtChain(self)
	id := "m1"
	origin := cname("origin")
	vp.Assume(origin != self)
	voucher := vp.Bool("asset.isVoucher")
	class := hexClass
	if voucher {
		class = c.voucherFor("mt/" + origin + "/" + self + "/" + hexClass)
	}
	held := vp.Uint64("held")
	c.give(class, id, alice, held)
	amount := vp.Uint64("amount")
	dest := cname("dest")
	vp.Assume(dest != self)
	supply0 := c.mt.supplyOf(class, id)
	err := c.k.SendMtTransfer(c.ctx, class, id, addr(alice), bob, dest, "", "", amount)
	vp.Assume(err == nil && len(c.pk.sent) == 1)
	isErr := vp.Bool("ack.isError")
	var ack []byte
	if isErr {
		ack = packettypes.NewErrorAcknowledgement("refused").GetBytes()
	} else {
		ack = packettypes.NewResultAcknowledgement([]byte{1}).GetBytes()
	}
	bal1, esc1, sup1 := c.mt.balanceOf(class, id, alice), c.mt.balanceOf(class, id, escrow), c.mt.supplyOf(class, id)

	_, err = c.am.OnAcknowledgementPacket(c.ctx, c.pk.sent[0], ack)

	if isErr {
		vp.Reach("mt refund processed")
		vp.Assert(err == nil, "C06.1 the refund of a failed transfer succeeds")
		vp.Assert(c.mt.balanceOf(class, id, alice) == held, "C06.1 an error acknowledgement gives the sender back exactly the amount that left")
		vp.Assert(c.mt.supplyOf(class, id) == supply0 && c.mt.balanceOf(class, id, escrow) == 0, "C05.1 after the refund supply and escrow are as before the send (nothing created, nothing left locked)")
	} else {
		vp.Reach("mt success acknowledgement processed")
		vp.Assert(err == nil && c.mt.balanceOf(class, id, alice) == bal1 && c.mt.balanceOf(class, id, escrow) == esc1 && c.mt.supplyOf(class, id) == sup1, "C06.1 a success acknowledgement has no token effect")
	}
}

func deliverMT(to *mtChain, p packettypes.Packet) []byte {
	_, ack, err := to.am.OnRecvPacket(to.ctx, p)
	if err != nil {
		return nil
	}
	return ack
}

// H_C05_conservation: A -> B partial transfers and a partial return: units locked on A always
// equal the voucher supply on B; user-held units over both chains plus in-flight equal the minted amount.
func H_C05_conservation() {
	nA, nB := "AA", "AB"
	a, b := newMtChain(nA), newMtChain(nB)
	id := "m1"
	minted := vp.Uint64("minted")
	a.give(hexClass, id, alice, minted)
	x := vp.Uint64("first.transfer")
	vp.Assume(x >= 1) // amounts range over 1 .. 2^64-1
	vp.Assume(a.k.SendMtTransfer(a.ctx, hexClass, id, addr(alice), bob, nB, "", "", x) == nil)
	ack := deliverMT(b, a.pk.sent[0])
	vp.Assume(ack != nil && !ackIsError(ack))
	vB := refVoucher("mt/" + nA + "/" + nB + "/" + hexClass)
	vp.Assert(a.mt.balanceOf(hexClass, id, escrow) == b.mt.supplyOf(vB, id), "C05.2 units locked in escrow equal the voucher units in circulation (after a transfer)")
	vp.Assert(a.mt.balanceOf(hexClass, id, alice)+b.mt.balanceOf(vB, id, bob) == minted, "C05.2 user-held units over all chains equal what was minted (after a transfer)")
	y := vp.Uint64("return.transfer")
	vp.Assume(y >= 1)
	err := b.k.SendMtTransfer(b.ctx, vB, id, addr(bob), alice, nA, "", "", y)
	if err != nil {
		vp.Reach("return refused")
		vp.Assert(y > x, "C05.1 a holder can return any part of the voucher units")
		return
	}
	inFlight := y
	vp.Assert(a.mt.balanceOf(hexClass, id, escrow) == b.mt.supplyOf(vB, id)+inFlight, "C05.2 escrow = vouchers in circulation + units in flight")
	ack = deliverMT(a, b.pk.sent[0])
	vp.Reach("partial return delivered")
	vp.Assert(ack != nil && !ackIsError(ack), "C06.2 the origin accepts returning units")
	vp.Assert(a.mt.balanceOf(hexClass, id, escrow) == b.mt.supplyOf(vB, id), "C05.2 units locked in escrow equal the voucher units in circulation (after a partial return)")
	vp.Assert(a.mt.balanceOf(hexClass, id, alice)+b.mt.balanceOf(vB, id, bob) == minted, "C05.2 user-held units over all chains equal what was minted (after a partial return)")
	vp.Assert(a.mt.supplyOf(hexClass, id) == minted, "C05.2 the native supply never changes")
}

var errModel = packettypes.ErrInvalidPacket // the token model's refusal
