package happs

import (
	"crypto/sha256"
	"fmt"
	"strings"

	tmbytes "github.com/cometbft/cometbft/libs/bytes"
	"github.com/cosmos/cosmos-sdk/codec"
	codectypes "github.com/cosmos/cosmos-sdk/codec/types"
	sdk "github.com/cosmos/cosmos-sdk/types"

	nfttransfer "github.com/bianjieai/tibc-go/modules/tibc/apps/nft_transfer"
	nftkeeper "github.com/bianjieai/tibc-go/modules/tibc/apps/nft_transfer/keeper"
	"github.com/bianjieai/tibc-go/modules/tibc/apps/nft_transfer/types"
	packettypes "github.com/bianjieai/tibc-go/modules/tibc/core/04-packet/types"
	"github.com/bianjieai/tibc-go/zzverif/vp"
)

type nftChain struct {
	self string
	ctx  sdk.Context
	k    nftkeeper.Keeper
	am   nfttransfer.AppModule
	nft  *nftModel
	pk   *stubPackets
}

func newNftChain(self string) *nftChain {
	c := &nftChain{self: self, ctx: vp.Ctx(), nft: &nftModel{}, pk: &stubPackets{next: 1}}
	cdc := codec.NewProtoCodec(codectypes.NewInterfaceRegistry())
	c.k = nftkeeper.NewKeeper(cdc, vp.StoreKey("nft"), stubAccounts{}, c.nft, c.pk, stubClients{self})
	c.am = nfttransfer.NewAppModule(c.k)
	return c
}

// give mints (class,id) natively to owner.
func (c *nftChain) give(class, id, owner string) {
	if !c.nft.hasDenom(class) {
		c.nft.denoms = append(c.nft.denoms, class)
	}
	c.nft.tokens = append(c.nft.tokens, &token{class: class, id: id, uri: "u", owner: owner})
}

// voucherFor registers the class trace of path on the chain (as a delivered packet would) and returns the voucher class.
func (c *nftChain) voucherFor(path string) string {
	c.k.SetClassTrace(c.ctx, refTrace(path))
	return refVoucher(path)
}

// refTrace / refVoucher: the reference reading of a class path "nft/<chain>/.../<class id>", written
// here independently of types.ParseClassTrace: the voucher class is tibc-<SHA-256 of the whole path>,
// so two paths share a voucher class only if they are the same string.
func refTrace(full string) types.ClassTrace {
	i := strings.LastIndex(full, "/")
	if i < 0 {
		return types.ClassTrace{BaseClass: full}
	}
	return types.ClassTrace{Path: full[:i], BaseClass: full[i+1:]}
}

func refVoucher(full string) string {
	h := sha256.Sum256([]byte(full))
	return fmt.Sprintf("%s-%s", "tibc", tmbytes.HexBytes(h[:]))
}

// baseSlash: the class id drawn by baseClass contains the path delimiter '/' (irismod accepts
// [a-z][a-zA-Z0-9/]{2,100}); the assertions of such runs carry a region suffix.
var baseSlash bool

func region(voucher bool) {
	if !baseSlash {
		return
	}
	if voucher {
		vp.Region(" [voucher of a class id containing '/']")
	} else {
		vp.Region(" [native class id containing '/']")
	}
}

func who(n string) string {
	if vp.Bool(n + ".isBob") {
		return bob
	}
	return alice
}

// baseClass: a native class name: 1..2 letters, or a name that merely starts with the path marker "nft".
func baseClass(n string) string {
	baseSlash = false
	switch vp.Choice(n+".kind", 4) {
	case 1:
		return "nft" + vp.String(n+".rest", 0, 1, "dx")
	case 2:
		baseSlash = true
		return vp.String(n+".head", 1, 1, "dn") + "/"
	case 3:
		baseSlash = true
		return vp.String(n+".head", 1, 1, "dn") + "/" + vp.String(n+".tail", 1, 1, "dn")
	}
	return vp.String(n, 1, 2, "dn")
}

func decode(p packettypes.Packet) (types.NonFungibleTokenPacketData, bool) {
	var d types.NonFungibleTokenPacketData
	err := d.Unmarshal(p.Data)
	return d, err == nil
}

// H_C04_send: one outgoing transfer (native class without '/', or a voucher with a 1- or 2-hop
// path) from an arbitrary ownership state.
func H_C04_send() {
	self := cname("self")
	c := newNftChain(self)
	base := baseClass("base")
	id := "t1"
	shape := vp.Choice("class.shape", 3)
	origin, mid := cname("origin"), cname("mid")
	var class, fullPath, cameFrom string
	switch shape {
	case 0: // native
		class, fullPath = base, base
	case 1: // voucher that arrived directly from origin
		vp.Assume(origin != self)
		fullPath = "nft/" + origin + "/" + self + "/" + base
		class, cameFrom = c.voucherFor(fullPath), origin
	default: // voucher that travelled origin -> mid -> self
		vp.Assume(origin != mid && mid != self)
		fullPath = "nft/" + origin + "/" + mid + "/" + self + "/" + base
		class, cameFrom = c.voucherFor(fullPath), mid
	}
	// vouchers of class ids containing '/': the path "nft/<chains>/<class id>" cannot be read back
	// unambiguously (known finding D13b, carried by H_C06_roundtrip); single steps are not judged here
	vp.Assume(!(baseSlash && shape != 0))
	region(false)
	holder := who("holder")
	present := vp.Bool("token.present")
	if present {
		c.give(class, id, holder)
	}
	c.give("zz", "other", alice) // an unrelated token
	sender := who("sender")
	dest := cname("dest")
	relay := ""
	if vp.Bool("relay.present") {
		relay = cname("relay")
	}
	c.pk.next = vp.Uint64("next.sequence")
	c.pk.failing = vp.Bool("packet.layer.refuses")
	seq0 := c.pk.next

	err := c.k.SendNftTransfer(c.ctx, class, id, addr(sender), bob, dest, relay, "")

	wantAway := shape == 0 || dest != cameFrom
	if err == nil {
		vp.Reach("nft send accepted")
		vp.Assert(present && holder == sender, "C09.5 only the owner can send an NFT")
		vp.Assert(dest != self, "C04.1 a transfer to the own chain is refused")
		vp.Assert(len(c.pk.sent) == 1, "C09.5 a successful send hands exactly one packet to the packet layer")
		if len(c.pk.sent) == 1 {
			p := c.pk.sent[0]
			d, ok := decode(p)
			vp.Assert(ok, "C04.1 the packet data decodes")
			vp.Assert(p.Sequence == seq0 && p.SourceChain == self && p.DestinationChain == dest && p.RelayChain == relay, "C09.5 the packet carries the channel's next sequence and the chosen route")
			vp.Assert(d.Class == fullPath && d.Id == id && d.Sender == sender && d.Receiver == bob && d.Uri == "u", "C04.1 the packet names exactly the asset (full class path, id, uri) and the parties")
			vp.Assert(d.AwayFromOrigin == wantAway, "C04.2 direction: away from origin unless the destination is the chain the voucher came from")
		}
		if wantAway {
			vp.Assert(c.nft.ownerOf(class, id) == escrow, "C04.1 moving away: exactly that NFT is locked in escrow")
		} else {
			vp.Assert(c.nft.ownerOf(class, id) == "", "C04.1 moving back: exactly that voucher is burned")
		}
	} else {
		vp.Reach("nft send refused")
		vp.Assert(len(c.pk.sent) == 0, "C09.5 a refused send hands no packet to the packet layer")
	}
	if c.pk.failing {
		vp.Assert(err != nil, "C09.5/C19.1 a failure of the packet layer fails the transfer (never swallowed after the lock)")
	}
	if present && holder == sender && dest != self && !c.pk.failing {
		vp.Assert(err == nil, "C04.1 the owner's transfer to another chain is accepted")
	}
	vp.Assert(c.nft.ownerOf("zz", "other") == alice, "C04.1 unrelated NFTs are untouched by a send")
}

// recvData builds packet data as a sending chain would.
func recvData(class, id, sender, receiver string, away bool) []byte {
	return types.NewNonFungibleTokenPacketData(class, id, "u", sender, receiver, away, "").GetBytes()
}

func ackIsError(bz []byte) bool {
	var ack packettypes.Acknowledgement
	if err := ack.Unmarshal(bz); err != nil {
		return true
	}
	_, isErr := ack.Response.(*packettypes.Acknowledgement_Error)
	return isErr
}

// H_C04_recv: one delivered packet on the destination chain, through the real module callback.
func H_C04_recv() {
	self := cname("self")
	src := cname("src")
	vp.Assume(src != self)
	c := newNftChain(self)
	base := baseClass("base")
	id := "t1"
	away := vp.Bool("data.away")
	shape := vp.Choice("class.shape", 3)
	third := cname("third")
	var class string
	switch shape {
	case 0:
		class = base
	case 1:
		class = "nft/" + third + "/" + src + "/" + base
	default:
		class = "nft/" + self + "/" + src + "/" + base
	}
	vp.Assume(!(baseSlash && shape != 0)) // see H_C04_send
	region(false)
	receiver := bob
	if vp.Bool("receiver.invalid") {
		receiver = "not-an-address"
	}
	// escrow state: the class this packet would release (if it is a returning voucher of ours)
	escrowed := vp.Bool("escrow.holds")
	backClass := ""
	if shape == 1 {
		backClass = c.voucherFor("nft/" + third + "/" + base) // a multi-hop voucher we forwarded earlier
		if third == self {
			backClass = base
		}
	} else if shape == 2 {
		backClass = base
	}
	if escrowed && backClass != "" {
		c.give(backClass, id, escrow)
	}
	c.give("zz", "other", alice)
	live0 := c.nft.live()
	packet := packettypes.Packet{Sequence: 1, Port: "NFT", SourceChain: src, DestinationChain: self, Data: recvData(class, id, alice, receiver, away)}

	var ack []byte
	var err error
	if vp.Panics(func() { _, ack, err = c.am.OnRecvPacket(c.ctx, packet) }) {
		// BaseApp recovers a panicking handler: the message fails and its state branch is dropped
		// (happens for data no honest sender produces: "moving back" with a class id that is not a path)
		vp.Assert(!away && shape == 0, "C04.3 only a packet that claims to move back without carrying a class path can crash the callback")
		return
	}

	vp.Assert(err == nil && len(ack) > 0, "C03.4 the application always answers with a non-empty acknowledgement")
	if err != nil {
		return
	}
	if ackIsError(ack) {
		vp.Reach("nft receive answered with an error acknowledgement")
		vp.Assert(c.nft.live() == live0 && c.nft.ownerOf("zz", "other") == alice && (backClass == "" || !escrowed || c.nft.ownerOf(backClass, id) == escrow),
			"C19.3 an error acknowledgement leaves the token state (ownership, existence) unchanged")
	} else {
		vp.Reach("nft receive succeeded")
		vp.Assert(receiver == bob, "C04.1 success only for a valid receiver")
		if away {
			newPath := "nft/" + src + "/" + self + "/" + base
			if shape != 0 {
				newPath = "nft/" + class[4:len(class)-len(base)] + self + "/" + base
			}
			v := refVoucher(newPath)
			vp.Assert(c.nft.ownerOf(v, id) == bob, "C04.1 moving away: a voucher of class tibc-hash(path + this hop) appears, owned by the receiver")
			vp.Assert(c.nft.live() == live0+1, "C04.1 exactly one voucher comes into existence per delivered packet")
			nh := sha256.Sum256([]byte(newPath))
			tr, found := c.k.GetClassTrace(c.ctx, nh[:])
			vp.Assert(found && tr.GetFullClassPath() == newPath, "C04.2 the voucher's class trace is recorded (so it can be sent on or back)")
		} else {
			vp.Assert(shape != 0, "C04.3 a packet claiming to move back must carry a class path")
			vp.Assert(escrowed && backClass != "" && c.nft.ownerOf(backClass, id) == bob, "C04.3 moving back: exactly the escrowed NFT of the returned voucher is released to the receiver")
			vp.Assert(c.nft.live() == live0, "C04.1 moving back creates nothing")
		}
	}
	vp.Assert(c.nft.ownerOf("zz", "other") == alice, "C04.1 unrelated NFTs are untouched by a receive")
}

// H_C06_refund: send, then process the acknowledgement: error => the sender has back exactly what left.
func H_C06_refund() {
	self := cname("self")
	c := newNftChain(self)
	base := baseClass("base")
	id := "t1"
	origin := cname("origin")
	vp.Assume(origin != self)
	voucher := vp.Bool("asset.isVoucher")
	class := base
	if voucher {
		class = c.voucherFor("nft/" + origin + "/" + self + "/" + base)
	}
	region(voucher)
	c.give(class, id, alice)
	dest := cname("dest")
	vp.Assume(dest != self)
	err := c.k.SendNftTransfer(c.ctx, class, id, addr(alice), bob, dest, "", "")
	vp.Assume(err == nil && len(c.pk.sent) == 1)
	p := c.pk.sent[0]
	isErr := vp.Bool("ack.isError")
	var ack []byte
	if isErr {
		ack = packettypes.NewErrorAcknowledgement("refused").GetBytes()
	} else {
		ack = packettypes.NewResultAcknowledgement([]byte{1}).GetBytes()
	}
	live1 := c.nft.live()
	owner1 := c.nft.ownerOf(class, id)

	_, err = c.am.OnAcknowledgementPacket(c.ctx, p, ack)

	if isErr {
		vp.Reach("nft refund processed")
		vp.Assert(err == nil, "C06.1 the refund of a failed transfer succeeds")
		vp.Assert(c.nft.ownerOf(class, id) == alice, "C06.1 an error acknowledgement gives the sender back exactly the NFT that left (same class, id, account)")
		vp.Assert(c.nft.live() == 1, "C06.1 the refund creates nothing else")
	} else {
		vp.Reach("nft success acknowledgement processed")
		vp.Assert(err == nil && c.nft.live() == live1 && c.nft.ownerOf(class, id) == owner1, "C06.1 a success acknowledgement has no token effect")
	}
}

// deliver runs the destination side of a packet and returns the acknowledgement.
func deliver(to *nftChain, p packettypes.Packet) []byte {
	_, ack, err := to.am.OnRecvPacket(to.ctx, p)
	if err != nil {
		return nil
	}
	return ack
}

// H_C06_roundtrip: A -> B (-> C -> B) -> A over the real code of every chain: the origin gets the
// asset back in its original class and id, every intermediate voucher is gone.
func H_C06_roundtrip() {
	nA, nB, nC := "AA", "AB", "BA"
	a, b, c := newNftChain(nA), newNftChain(nB), newNftChain(nC)
	base := baseClass("base")
	id := "t1"
	region(false)
	a.give(base, id, alice)
	hops := 1 + vp.Choice("extra.hop", 2)
	vp.Assume(a.k.SendNftTransfer(a.ctx, base, id, addr(alice), bob, nB, "", "") == nil)
	ack := deliver(b, a.pk.sent[0])
	vp.Assume(ack != nil && !ackIsError(ack))
	vB := refVoucher("nft/" + nA + "/" + nB + "/" + base)
	vp.Assert(b.nft.ownerOf(vB, id) == bob && a.nft.ownerOf(base, id) == escrow, "C04.1 after one hop: original in escrow on the origin, voucher with the receiver")
	if hops == 2 {
		vp.Assume(b.k.SendNftTransfer(b.ctx, vB, id, addr(bob), alice, nC, "", "") == nil)
		ack = deliver(c, b.pk.sent[0])
		vp.Assume(ack != nil && !ackIsError(ack))
		vC := refVoucher("nft/" + nA + "/" + nB + "/" + nC + "/" + base)
		vp.Assert(c.nft.ownerOf(vC, id) == alice && b.nft.ownerOf(vB, id) == escrow, "C04.1 after two hops: first voucher in escrow on the middle chain, second voucher with the receiver")
		// and back C -> B
		err := c.k.SendNftTransfer(c.ctx, vC, id, addr(alice), bob, nB, "", "")
		vp.Assert(err == nil, "C06.2 the holder can send the voucher back")
		if err != nil {
			return
		}
		ack = deliver(b, c.pk.sent[0])
		vp.Assert(ack != nil && !ackIsError(ack), "C06.2 the middle chain accepts the returning voucher")
		vp.Assert(c.nft.ownerOf(vC, id) == "" && b.nft.ownerOf(vB, id) == bob, "C06.2 returning one hop burns the outer voucher and releases the inner one")
	}
	// back B -> A
	n := len(b.pk.sent)
	err := b.k.SendNftTransfer(b.ctx, vB, id, addr(bob), alice, nA, "", "")
	vp.Assert(err == nil, "C06.2 the holder can send the voucher back to the origin")
	if err != nil {
		return
	}
	ack = deliver(a, b.pk.sent[n])
	vp.Reach("round trip completed")
	vp.Assert(ack != nil && !ackIsError(ack), "C06.2 the origin accepts the returning voucher")
	vp.Assert(a.nft.ownerOf(base, id) == alice, "C06.2 after the round trip the final receiver on the origin holds the asset in its original class and id")
	vp.Assert(b.nft.ownerOf(vB, id) == "" && b.nft.live() == 0 && c.nft.live() == 0, "C06.2 every intermediate voucher is gone")
}

// H_C04_forged_return: a user of chain B mints a NATIVE class whose name looks like the class
// path of A's voucher and sends it to A. A's escrowed original must stay in escrow.
func H_C04_forged_return() {
	nA, nB := "AA", "AB"
	a, b := newNftChain(nA), newNftChain(nB)
	base := baseClass("base")
	id := "t1"
	// genuine history: alice@A sent base/id to bob@B
	region(false)
	a.give(base, id, alice)
	vp.Assume(a.k.SendNftTransfer(a.ctx, base, id, addr(alice), bob, nB, "", "") == nil)
	ack := deliver(b, a.pk.sent[0])
	vp.Assume(ack != nil && !ackIsError(ack))
	vB := refVoucher("nft/" + nA + "/" + nB + "/" + base)
	// mallory (alice's key on B) creates a native class on B; irismod accepts names matching [a-z][a-zA-Z0-9/]{2,100}
	forged := "nft/" + nA + "/" + nB + "/" + base
	if vp.Bool("forged.plainName") {
		forged = "x" + base
	}
	b.give(forged, id, alice)
	err := b.k.SendNftTransfer(b.ctx, forged, id, addr(alice), alice, nA, "", "")
	if err != nil {
		return // refusing the forged transfer at the sender would be fine too
	}
	ack = deliver(a, b.pk.sent[0])
	vp.Reach("forged transfer delivered")
	vp.Assert(b.nft.ownerOf(vB, id) == bob, "C04.3 the genuine voucher is still with its holder")
	vp.Assert(a.nft.ownerOf(base, id) == escrow, "C04.3 escrow is released only for the voucher that represents it: a natively minted class that merely looks like the voucher's path releases nothing")
}
