// Package hrouting: harnesses for the routing keeper (rule acceptance and matching), C12.
package hrouting

import (
	routingkeeper "github.com/bianjieai/tibc-go/modules/tibc/core/26-routing/keeper"
	routingtypes "github.com/bianjieai/tibc-go/modules/tibc/core/26-routing/types"
	"github.com/bianjieai/tibc-go/zzverif/vp"
)

// identifier alphabet of the property statement: letters, digits and . _ + - # [ ] < >
func isIDByte(b byte) bool {
	return vp.Or(vp.And(b >= 'a', b <= 'z'), vp.And(b >= 'A', b <= 'Z'), vp.And(b >= '0', b <= '9'),
		b == '.', b == '_', b == '+', b == '-', b == '#', b == '[', b == ']', b == '<', b == '>')
}

// fieldOK: s[lo:hi] is a single '*' or 1..64 identifier characters (independent specification).
func fieldOK(s string, lo, hi int) bool {
	n := hi - lo
	if n < 1 || n > 64 {
		return false
	}
	all := true
	for i := lo; i < hi; i++ {
		all = vp.And(all, isIDByte(s[i]))
	}
	if n == 1 {
		return vp.Or(s[lo] == '*', all)
	}
	return all
}

// ruleSpec: three comma-separated fields, each a valid identifier or a single '*'.
func ruleSpec(s string) bool {
	ok := false
	for i := 0; i < len(s); i++ {
		for j := i + 1; j < len(s); j++ {
			ok = vp.Or(ok, vp.And(s[i] == ',', s[j] == ',', fieldOK(s, 0, i), fieldOK(s, i+1, j), fieldOK(s, j+1, len(s))))
		}
	}
	return ok
}

const ruleAlphabet = "ab*,.+[]<>_-#09AZ \n/\\"

// H_C12_accept: a rule set is accepted iff every rule is three comma-separated fields, each an
// identifier or '*'. The rule string is symbolic (every length in the bound, alphabet incl. bytes outside the identifier set).
func H_C12_accept() {
	ctx := vp.Ctx()
	k := routingkeeper.NewKeeper(vp.StoreKey("tibc"))
	rule := vp.String("rule", 0, vp.Bound(7, 10), ruleAlphabet)
	err := k.SetRoutingRules(ctx, []string{rule})
	spec := ruleSpec(rule)
	if err == nil {
		vp.Reach("rule accepted")
	} else {
		vp.Reach("rule rejected")
	}
	vp.Assert((err == nil) == spec, "C12.1 a rule is accepted iff it is three comma-separated fields, each an identifier or a single '*'")
	gs := routingtypes.GenesisState{Rules: []string{rule}}
	vp.Assert((gs.Validate() == nil) == spec, "C12.1 genesis validation accepts exactly the same rules")
	_, found := k.GetRoutingRules(ctx)
	vp.Assert(found == (err == nil), "C12.1 rules are stored iff accepted")
}

// H_C12_accept_long: the 64-character limit of a field (field of 64 or 65 identifier characters).
func H_C12_accept_long() {
	ctx := vp.Ctx()
	k := routingkeeper.NewKeeper(vp.StoreKey("tibc"))
	n := 64 + vp.Choice("extra", 2)
	long := vp.String("field", n, n, "ab+[")
	which := vp.Choice("position", 3)
	rule := ""
	switch which {
	case 0:
		rule = long + ",*,b"
	case 1:
		rule = "a," + long + ",*"
	default:
		rule = "*,b," + long
	}
	err := k.SetRoutingRules(ctx, []string{rule})
	vp.Reach("long field submitted")
	vp.Assert((err == nil) == (n <= 64), "C12.1 a field of up to 64 identifier characters is accepted, 65 is not")
}

// candidate fields for the enumerated rule shapes (the rule decides the shape of the automaton;
// the triple is symbolic and decided by the solver)
var fieldsQuick = []string{"*", "a", "b", "+", "a+", "[a]", ".", "a.", "ab"}
var fieldsThorough = []string{"*", "a", "b", "+", "a+", "+a", "[a]", "[", "]", "[a", "a]", ".", "a.", "ab", "-", "a-b", "#", "<", ">", "_", "0", "[]", "][", "b+"}

const subjAlphabet = "ab+[].-0"

func fieldwise(rf, f string) bool { return vp.Or(rf == "*", rf == f) }

// H_C12_match: Authenticate == exists stored rule matching field by field ('*' matches anything,
// any other field matches only the identical string), for every triple of identifiers in the bound.
func H_C12_match() {
	ctx := vp.Ctx()
	k := routingkeeper.NewKeeper(vp.StoreKey("tibc"))
	fs := fieldsQuick
	if vp.Bound(0, 1) == 1 {
		fs = fieldsThorough
	}
	r0, r1, r2 := fs[vp.Choice("rule.f0", len(fs))], fs[vp.Choice("rule.f1", len(fs))], fs[vp.Choice("rule.f2", len(fs))]
	rules := []string{r0 + "," + r1 + "," + r2}
	second := vp.Choice("second", 3)
	if second == 1 {
		rules = append(rules, "b,b,b")
	} else if second == 2 {
		rules = append([]string{"b,b,b"}, rules...)
	}
	err := k.SetRoutingRules(ctx, rules)
	vp.Assert(err == nil, "C12.1 every enumerated rule (identifier fields and '*') is accepted")
	if err != nil {
		return
	}
	src := vp.String("src", 1, 2, subjAlphabet)
	dst := vp.String("dst", 1, 2, subjAlphabet)
	port := vp.String("port", 1, 2, subjAlphabet)
	got := k.Authenticate(ctx, src, dst, port)
	want := vp.And(fieldwise(r0, src), fieldwise(r1, dst), fieldwise(r2, port))
	if second != 0 {
		want = vp.Or(want, vp.And(src == "b", dst == "b", port == "b"))
	}
	vp.Reach("triple checked against stored rules")
	plain := isPlain(r0) && isPlain(r1) && isPlain(r2)
	if plain {
		vp.Assert(got == want, "C12.2 authorised iff some stored rule matches field by field (rules of letters, digits, '.', '_', '-', '#', '<', '>' and '*')")
	} else {
		vp.Assert(got == want, "C12.2 authorised iff some stored rule matches field by field (rules containing '+', '[' or ']')")
	}
}

// isPlain: the field has none of the identifier characters that are regular-expression operators.
func isPlain(f string) bool {
	for i := 0; i < len(f); i++ {
		if f[i] == '+' || f[i] == '[' || f[i] == ']' {
			return false
		}
	}
	return true
}

// H_C12_norules: with no rules stored, or an empty list, nothing is authorised.
func H_C12_norules() {
	ctx := vp.Ctx()
	k := routingkeeper.NewKeeper(vp.StoreKey("tibc"))
	if vp.Bool("storeEmptyList") {
		err := k.SetRoutingRules(ctx, []string{})
		vp.Assert(err == nil, "C12.3 an empty rule list is accepted")
	}
	src := vp.String("src", 1, 2, subjAlphabet)
	dst := vp.String("dst", 1, 2, subjAlphabet)
	port := vp.String("port", 1, 2, subjAlphabet)
	vp.Reach("no rules")
	vp.Assert(!k.Authenticate(ctx, src, dst, port), "C12.3 with no rules stored nothing is authorised")
}
